"""C02 — Model log-probability equals the joint log-density and decomposes as documented.

Sub-oracles
  programs  generated model programs (vlib.modelgen: hierarchies of scalar / vector distributions from ten families, parameters that
            are constants, other variables or cached / transient / weak-variable / bare calculations, all role flags incl. distributed but
            unflagged variables, optional degenerate-MVN smoothing block, optional bare Dist node, optional user-supplied log-lik / log-prior
            / log-prob replacement nodes) x re-assignments: log_prob / log_lik / log_prior and every Var.log_prob vs. a float64 scipy
            evaluation of the *spec*; log_prob = log_lik + log_prior when every distribution belongs to exactly one flagged variable;
            flipping per_obs anywhere changes none of the totals
  distreg   DistRegBuilder models (normal / poisson response, predictors with links, parametric and non-parametric smooths) vs. a
            hand-written float64 evaluation
Even shards run in float32, odd shards under jax_enable_x64 (rtol 1e-9).
"""
from __future__ import annotations

import math

import numpy as np
from scipy import stats as sps

from vlib import modelgen as mg
from vlib.lz import jax, jnp, lsl, tfd, tfb
from vlib.runner import Sub, require

from liesel.distributions import MultivariateNormalDegenerate

PROPERTY = "C02"
RULE = ("cases = model-program specs (1-6 variables, families Normal/HalfNormal/Gamma/InverseGamma/Exponential/LogNormal/Beta/Uniform/Poisson/"
        "Bernoulli, scalar and vector values, parameter references through constants / variables / four kinds of intermediate calculation, role "
        "flags, per_obs flags, optional MVN-degenerate block, bare Dist node, user replacement nodes) plus 1-4 re-assignments of all strong "
        "variables; non-trivial = >= 2 distribution nodes incl. a vector-valued one and at least one of {user node, unflagged distribution, bare "
        "Dist, MVN-degenerate block, intermediate calculation}; distinct = SHA-1 of the case")
ASSUMPTIONS = [
    "oracle = scipy.stats log-densities evaluated on the spec in float64 (no liesel, no TFP)",
    "float32 tolerance |impl - oracle| <= 1e-5 + 2e-5 (1 + log2(n_terms+1)) (1 + sum |terms|); x64 shards use 1e-9 (1 + sum |terms|)",
    "values are generated inside the support of their distribution",
    "TFP evaluates Bernoulli / Poisson log-pmfs in float32 even under x64: specs containing them keep the float32 tolerance there",
    "DistRegBuilder hard-codes float32 coefficient arrays, so the distreg sub-oracle runs on the float32 shards only",
]
SHARDS = {"quick": 16, "thorough": 16}
TECHNIQUE = ("grammar-style Hypothesis generator of model programs; differential test against an independent float64 scipy evaluator of "
             "the same spec; metamorphic per_obs flip; float32 and x64 passes")
LEVEL_TEXT = ("Differential generated-program testing: liesel graph and oracle are built by separate code from one spec; the three totals and "
              "every per-variable log-density are compared after the build and after each re-assignment, the documented decomposition is "
              "asserted exactly where the statement grants it, user replacement nodes must be forwarded unchanged, and rebuilding with any "
              "other per_obs assignment must not change the totals. Exploration, not proof.")
LEVEL_NOTE = "Trusts scipy.stats / numpy float64 as the reference and the spec interpreter in vlib/modelgen.py."


def shard_env(i, n):
    return {"VERIF_X64": "1" if i % 2 == 1 else "0"}


def x64():
    return bool(jax.config.jax_enable_x64)


def gen():
    from hypothesis import strategies as st

    @st.composite
    def g(draw):
        spec = draw(mg.spec_strategy(max_vars=6, roles=("param", "obs", "plain", "unflagged", "both"), allow_weak=True))
        nv = len(spec["vars"])
        ex = {}
        if draw(st.integers(0, 3)) == 0:
            ex["mvnd"] = {"d": draw(st.integers(2, 5)), "order": draw(st.integers(1, 2)), "z": [draw(st.floats(-2, 2, width=32)) for _ in range(5)],
                          "tau2_z": draw(st.floats(-1, 1, width=32)), "ctor": draw(st.sampled_from(["penalty", "smooth"]))}
        if draw(st.integers(0, 3)) == 0:
            ex["bare"] = {"at": draw(st.integers(0, nv - 1)), "scale": draw(st.sampled_from([0.5, 1.0, 2.0]))}
        for which in ("log_lik", "log_prior", "log_prob"):
            if draw(st.integers(0, 5)) == 0:
                ex["user_" + which] = {"of": draw(st.integers(0, nv - 1)), "vector": draw(st.booleans())}
        ex["auto"] = [i for i, d in enumerate(spec["vars"]) if d["family"] and d["role"] == "param" and d["support"] in ("pos", "unit", "bounded") and not d.get("weak_of")
                      and draw(st.integers(0, 2)) == 0 and i != ex.get("bare", {}).get("at")]   # (a bare Dist pins the old value node)
        ex["merge"] = draw(st.booleans())
        spec["extras"] = ex
        n_re = draw(st.integers(1, 3))
        re = [[[draw(st.floats(-2, 2, width=32)) for _ in d["z"]] for d in spec["vars"]] for _ in range(n_re)]
        flip = [draw(st.booleans()) for _ in spec["vars"]]
        return {"spec": spec, "reassign": re, "flip": flip, "modes": [draw(st.sampled_from(["auto", "auto", "targeted"])) for _ in re],
                "pop_rebuild": draw(st.booleans()), "prebuild_copy": draw(st.booleans()), "simulate": draw(st.booleans()), "sim_seed": draw(st.integers(0, 10**6))}

    return g()


def diff_penalty(d, order):
    D = np.eye(d)
    for _ in range(order):
        D = np.diff(D, axis=0)
    return D.T @ D


def build_model(spec, per_obs_override=None, prebuild_copy=False):
    dt = np.float64 if x64() else np.float32
    lvars = mg.build(spec, per_obs_override, float_dtype=dt)
    gb = lsl.GraphBuilder(to_float32=not x64())
    gb.add(*lvars)
    ex = spec["extras"]
    extra = {}
    bij = {}
    for i in ex.get("auto", []):
        # which bijector is the distribution's default?  (only its *name* is taken from TFP; the maps below are closed forms)
        bij[i] = type(lvars[i].dist_node.init_dist().experimental_default_event_space_bijector()).__name__
        lvars[i].auto_transform = True
    extra["bij"] = bij
    if "mvnd" in ex:
        m = ex["mvnd"]
        K = diff_penalty(m["d"], m["order"]).astype(dt)
        tau2 = lsl.param(dt(math.exp(0.7 * m["tau2_z"])), lsl.Dist(tfd.InverseGamma, concentration=dt(2.0), scale=dt(1.5)), name="tau2")
        r = m["d"] - m["order"]
        if m["ctor"] == "penalty":
            dist = lsl.Dist(MultivariateNormalDegenerate.from_penalty, loc=dt(0.0), var=tau2, pen=K, rank=r)
        else:
            smooth = lsl.Var(lsl.Calc(lambda t: 1.0 / t, tau2), name="smooth")
            dist = lsl.Dist(MultivariateNormalDegenerate.from_penalty_smooth, loc=dt(0.0), smooth=smooth, pen=K, rank=r)
        beta = lsl.param(np.asarray(m["z"][: m["d"]], dtype=dt), dist, name="beta")
        gb.add(beta)
        extra["mvnd"] = (tau2, beta, K, r)
    if "bare" in ex:
        at = lvars[ex["bare"]["at"]]
        bd = lsl.Dist(tfd.Normal, loc=dt(0.0), scale=dt(ex["bare"]["scale"]), _name="bare_dist")
        bd.at = at.value_node
        gb.add(bd)
    for which in ("log_lik", "log_prior", "log_prob"):
        u = ex.get("user_" + which)
        if u:
            src = lvars[u["of"]]
            if u["vector"]:
                node = lsl.Calc(lambda x: -0.5 * jnp.atleast_1d(x) ** 2 + 1.0, src, _name="user_" + which)
            else:
                node = lsl.Calc(lambda x: -jnp.sum(x ** 2) - 3.0, src, _name="user_" + which)
            setattr(gb, which + "_node", node)
    if ex.get("merge"):
        # the graph is assembled from two builders: a second builder holding part of the variables is added AFTER the user-supplied nodes were set
        gb.add(lsl.GraphBuilder(to_float32=not x64()).add(lvars[-1]))
    if prebuild_copy and not ex.get("auto"):
        # the builder stays usable after build_model(copy=True): the model under test is the builder's SECOND model
        gb.build_model(copy=True)
    return gb.build_model(), lvars, extra


def bij_inv_and_logjac(name, v, d):
    """t = b^-1(v) and log|b'(t)| for the default event-space bijectors, closed forms in float64"""
    v = np.asarray(v, dtype=np.float64)
    if name == "Exp":
        t = np.log(v)
        return t, t
    if name == "Softplus":
        t = v + np.log(-np.expm1(-v))
        return t, -np.logaddexp(0.0, -t)
    if name == "Sigmoid":
        lo, hi = (d["params"]["low"][1], d["params"]["high"][1]) if d["family"] == "Uniform" else (0.0, 1.0)
        u = (v - lo) / (hi - lo)
        t = np.log(u) - np.log1p(-u)
        return t, math.log(hi - lo) - np.logaddexp(0.0, -t) - np.logaddexp(0.0, t)
    if name == "Chain" and d["family"] == "InverseGamma":     # Reciprocal o Softplus:  v = 1 / softplus(t)
        w = 1.0 / v
        t = w + np.log(-np.expm1(-w))
        return t, 2.0 * np.log(v) - np.logaddexp(0.0, -t)
    raise RuntimeError(f"harness: no closed form for default bijector {name}")


def expected(spec, values, mv=None, bij=None):
    """oracle totals incl. extras (float64)"""
    tot, terms = mg.oracle_totals(spec, values)
    ex = spec["extras"]
    for i, name in (bij or {}).items():
        t, lj = bij_inv_and_logjac(name, values[i], spec["vars"][i])
        lj = np.broadcast_to(lj, terms[i].shape)
        terms[i] = terms[i] + lj
        tot["log_prob"] += float(np.sum(lj))
        tot["log_prior"] += float(np.sum(lj))
        tot["abs"] += float(np.sum(np.abs(lj)))
    if "mvnd" in ex:
        m = ex["mvnd"]
        tau2, beta = mv
        K = diff_penalty(m["d"], m["order"])
        r = m["d"] - m["order"]
        w = np.linalg.eigvalsh(K)
        lpd = float(np.sum(np.log(w[-r:]))) - r * math.log(tau2)
        lp_beta = -0.5 * (r * math.log(2 * math.pi) - lpd) - 0.5 * beta @ (K / tau2) @ beta
        lp_tau = float(sps.invgamma.logpdf(tau2, 2.0, scale=1.5))
        for s in (lp_beta, lp_tau):
            tot["log_prob"] += s
            tot["log_prior"] += s
            tot["abs"] += abs(s) + 0.5 * abs(beta) @ np.abs(K / tau2) @ abs(beta)
            tot["n_terms"] += 1
        tot["mvnd_terms"] = (lp_tau, lp_beta)
    if "bare" in ex:
        v = values[ex["bare"]["at"]]
        s = np.sum(sps.norm.logpdf(v, 0.0, ex["bare"]["scale"]))
        tot["log_prob"] += float(s)
        tot["abs"] += float(np.sum(np.abs(sps.norm.logpdf(v, 0.0, ex["bare"]["scale"]))))
        tot["n_terms"] += int(np.size(v))
    user = {}
    for which in ("log_lik", "log_prior", "log_prob"):
        u = ex.get("user_" + which)
        if u:
            x = np.asarray(values[u["of"]], dtype=np.float64)
            user[which] = (-0.5 * np.atleast_1d(x) ** 2 + 1.0) if u["vector"] else (-np.sum(x ** 2) - 3.0)
    return tot, terms, user


def precise(spec):
    """x64 tolerance applies unless a discrete family is present (TFP evaluates Bernoulli / Poisson log-pmfs in float32 even under x64)"""
    return x64() and not any(d["family"] in ("Bernoulli", "Poisson") for d in spec["vars"])


def compare(model, lvars, spec, values, mv, tag, det, bij=None):
    tot, terms, user = expected(spec, values, mv, bij)
    t = mg.tol(tot["abs"], tot["n_terms"], precise(spec))
    for which in ("log_prob", "log_lik", "log_prior"):
        got = np.asarray(getattr(model, which), dtype=np.float64)
        if which in user:
            exp = np.asarray(user[which], dtype=np.float64)
            require(got.shape == exp.shape and bool(np.allclose(got, exp, rtol=1e-9 if x64() else 2e-6, atol=1e-9 if x64() else 1e-6)),
                    tag + f"user-{which}-node-not-forwarded-unchanged", lambda: f"got {got.tolist()} expected {exp.tolist()}; {det()}")
        else:
            require(got.shape == () and abs(float(got) - tot[which]) <= t, tag + f"{which}-not-sum-of-log-densities",
                    lambda: f"model.{which}={got.tolist()} oracle={tot[which]} (tol {t:.2e}); {det()}")
    for i, (d, term) in enumerate(zip(spec["vars"], terms)):
        if term is None:
            continue
        holder = model.vars[d["name"] + "_transformed"] if bij and i in bij else lvars[i]
        got = np.asarray(holder.log_prob, dtype=np.float64)
        po = holder.dist_node.per_obs
        exp = term if po else np.asarray(term.sum())
        tv = mg.tol(float(np.sum(np.abs(term))), int(term.size), x64() and d["family"] not in ("Bernoulli", "Poisson"))
        require(got.shape == exp.shape, tag + "var-log_prob-shape", lambda: f"{d['name']}: shape {got.shape} expected {exp.shape} (per_obs={po}); {det()}")
        require(bool(np.all(np.abs(got - exp) <= tv)), tag + "var-log_prob-not-log-density", lambda: f"{d['name']} ({d['family']}): got {got.tolist()} expected {exp.tolist()}; {det()}")
    return tot, user


def oracle(case):
    spec = case["spec"]
    det = lambda: f"case={case}"  # noqa: E731
    model, lvars, extra = build_model(spec, prebuild_copy=case.get("prebuild_copy", False))
    dt = np.float64 if x64() else np.float32
    values = [np.asarray(np.asarray(v, dtype=dt), dtype=np.float64) for v in mg.initial_values(spec)]
    mv = None
    if "mvnd" in extra:
        tau2, beta, K, r = extra["mvnd"]
        mv = (float(dt(tau2.value)), np.asarray(beta.value, dtype=np.float64))
    bij = extra["bij"]
    for i in bij:
        tv = model.vars.get(spec["vars"][i]["name"] + "_transformed")
        require(tv is not None and tv.parameter and not lvars[i].parameter and lvars[i].weak and lvars[i].dist_node is None,
                "auto-transform-did-not-move-distribution-and-flag", lambda: f"var {spec['vars'][i]['name']}; {det()}")
    tot, user = compare(model, lvars, spec, values, mv, "build:", det, bij)
    ex = spec["extras"]
    roles_ok = all(d["role"] in ("obs", "param") for d in spec["vars"] if d["family"]) and "bare" not in ex and not user
    if roles_ok:
        lp, ll, lpr = (float(np.asarray(getattr(model, w))) for w in ("log_prob", "log_lik", "log_prior"))
        require(abs(lp - (ll + lpr)) <= 2 * mg.tol(tot["abs"], tot["n_terms"], precise(spec)), "log_prob-not-lik-plus-prior", lambda: f"{lp} vs {ll}+{lpr}; {det()}")
    # re-assignments
    def assign_all(vals, target_model=None):
        for i, (var, v) in enumerate(zip(lvars, vals)):
            if spec["vars"][i].get("weak_of"):
                continue
            if i in bij:
                t, _ = bij_inv_and_logjac(bij[i], v, spec["vars"][i])
                model.vars[spec["vars"][i]["name"] + "_transformed"].value = np.asarray(t, dtype=dt)
            else:
                var.value = np.asarray(v, dtype=dt)

    for zs, mode in zip(case["reassign"], case.get("modes") or ["auto"] * len(case["reassign"])):
        vals = mg.values_from_z(spec, zs)
        if mode == "targeted":
            # auto-update off, assign everything, then a targeted update of the log-probability only: it must already be the joint density
            model.auto_update = False
            assign_all(vals)
            model.update("_model_log_prob")
            values_t = [np.asarray(np.asarray(v, dtype=dt), dtype=np.float64) for v in vals]
            if not bij and not user:
                tot_t, _, _ = expected(spec, values_t, mv, bij)
                got_t = float(np.asarray(model.log_prob))
                tt = mg.tol(tot_t["abs"], tot_t["n_terms"], precise(spec))
                require(abs(got_t - tot_t["log_prob"]) <= tt, "targeted-update:log_prob-not-sum-of-log-densities",
                        lambda: f"after update('_model_log_prob'): {got_t} oracle {tot_t['log_prob']} (tol {tt:.2e}); {det()}")
            model.auto_update = True
        else:
            assign_all(vals)
        model.update()
        values = [np.asarray(lvars[i].value, dtype=np.float64) if i in bij else np.asarray(np.asarray(v, dtype=dt), dtype=np.float64) for i, v in enumerate(vals)]
        compare(model, lvars, spec, values, mv, "after-assignment:", det, bij)
    # nodes that leave a model keep their cached log-densities: after pop, new values and a rebuild the totals must be those of the new values
    if case.get("pop_rebuild") and not bij and not user and "bare" not in ex and "mvnd" not in ex:
        nodes, vars_ = model.pop_nodes_and_vars()
        zs2 = [[-0.7 * z for z in zz] for zz in case["reassign"][-1]]
        vals2 = mg.values_from_z(spec, zs2)
        for i, (var, v) in enumerate(zip(lvars, vals2)):
            if not spec["vars"][i].get("weak_of"):
                var.value = np.asarray(v, dtype=dt)
        model = lsl.GraphBuilder(to_float32=not x64()).add(*vars_.values()).build_model()
        values = [np.asarray(np.asarray(v, dtype=dt), dtype=np.float64) for v in vals2]
        compare(model, lvars, spec, values, mv, "after-pop-and-rebuild:", det, bij)
        case = dict(case, reassign=case["reassign"][:-1] + [zs2])
    # metamorphic: any other per_obs assignment gives the same totals
    base = {w: np.asarray(getattr(model, w), dtype=np.float64) for w in ("log_prob", "log_lik", "log_prior")}
    if any(case["flip"]) and not bij:
        po = [(not d["per_obs"]) if f else d["per_obs"] for d, f in zip(spec["vars"], case["flip"])]
        spec2 = dict(spec)
        spec2["vars"] = [dict(d, z=list(z)) for d, z in zip(spec["vars"], case["reassign"][-1])]
        m2, lv2, _ = build_model(spec2, po)
        for w in base:
            b2 = np.asarray(getattr(m2, w), dtype=np.float64)
            require(b2.shape == base[w].shape and bool(np.allclose(b2, base[w], rtol=1e-9 if precise(spec) else 3e-5, atol=mg.tol(tot["abs"], tot["n_terms"], precise(spec)))),
                    "per_obs-changes-total:" + w, lambda: f"{base[w].tolist()} vs {b2.tolist()} with per_obs {po}; {det()}")
    # values assigned by the model itself: after simulate() (auto-update on) the totals are those of the simulated values
    if case.get("simulate") and "bare" not in ex and "mvnd" not in ex:
        from vlib.lz import jax

        model.auto_update = True
        # (weak variables that carry a distribution cannot be assigned: documented AttributeError unless they are skipped)
        weak_dist = [d["name"] for d in spec["vars"] if d.get("weak_of") and d["family"]]
        model.simulate(jax.random.PRNGKey(int(case.get("sim_seed", 0))), skip=weak_dist)
        values_s = [np.asarray(v.value, dtype=np.float64) for v in lvars]
        tame = all(np.all(np.isfinite(v)) and np.all(np.abs(v) < 1e6) and (d["support"] == "real" or np.all(np.abs(v) > 1e-6)) for v, d in zip(values_s, spec["vars"]))
        if tame:
            tot_s, terms_s, _ = expected(spec, values_s, mv, bij)
            # (float32 draws can sit exactly on a support boundary, e.g. Beta(0.5, 0.5) -> 1.0, where the density is infinite)
            tame = all(np.isfinite(tot_s[w]) for w in ("log_prob", "log_lik", "log_prior")) and np.isfinite(tot_s["abs"]) and tot_s["abs"] < 1e6
        if tame:
            compare(model, lvars, spec, values_s, mv, "after-simulate:", det, bij)
    dists = [d for d in spec["vars"] if d["family"]]
    has_calc = any(r[0] == "calc" for d in dists for r in d["params"].values())
    special = bool(user) or any(d["role"] == "unflagged" for d in dists) or "bare" in ex or "mvnd" in ex or has_calc
    nt = len(dists) + (2 if "mvnd" in ex else 0) >= 2 and any(d["shape"] == "vector" for d in dists) and special
    cls = ["x64" if x64() else "f32", "auto" if bij else "noauto", f"dists{min(len(dists), 4)}", "user" if user else "nouser", "mvnd" if "mvnd" in ex else "nomvnd",
           "bare" if "bare" in ex else "nobare", "calc" if has_calc else "nocalc", "decomp" if roles_ok else "nodecomp"]
    return {"nt": bool(nt), "cls": cls}


# ------------------------------------------------------------------------------ DistRegBuilder
def gen_distreg():
    from hypothesis import strategies as st

    return st.fixed_dictionaries({
        "family": st.sampled_from(["normal", "poisson"]), "n": st.integers(4, 9), "seed": st.integers(0, 10**6),
        "p_loc": st.integers(1, 3), "np_loc": st.booleans(), "p_scale": st.integers(1, 2), "m": st.sampled_from([0.0, 0.5]), "s": st.sampled_from([1.0, 10.0]),
        "a": st.sampled_from([0.5, 1.0, 2.0]), "b": st.sampled_from([0.01, 0.5, 2.0]), "order": st.integers(1, 2), "d": st.integers(3, 6),
    })


def oracle_distreg(c):
    from liesel.model import DistRegBuilder

    if x64():
        # DistRegBuilder creates float32 coefficient arrays itself; mixing them with float64 data is rejected by TFP: float32 only
        return {"nt": False, "cls": ["skipped-x64"]}
    dt = np.float32
    rng = np.random.default_rng([c["seed"], 2])
    n = c["n"]
    X1 = np.c_[np.ones(n), rng.normal(size=(n, c["p_loc"] - 1))].astype(dt)
    X2 = np.c_[np.ones(n), rng.normal(size=(n, c["p_scale"] - 1))].astype(dt)
    Z = rng.normal(size=(n, c["d"])).astype(dt)
    K = diff_penalty(c["d"], c["order"]).astype(dt)
    b = DistRegBuilder()
    det = lambda: f"{c}"  # noqa: E731
    if c["family"] == "normal":
        y = rng.normal(size=n).astype(dt)
        b.add_response(y, tfd.Normal)
        b.add_predictor("loc", tfb.Identity)
        b.add_predictor("scale", tfb.Exp)
        b.add_p_smooth(X2, c["m"], c["s"], "scale")
        main = "loc"
    else:
        y = rng.poisson(2.0, size=n).astype(dt)
        b.add_response(y, tfd.Poisson)
        b.add_predictor("rate", tfb.Exp)
        main = "rate"
    b.add_p_smooth(X1, c["m"], c["s"], main)
    if c["np_loc"]:
        b.add_np_smooth(Z, K, c["a"], c["b"], main)
    model = b.build_model()
    # assign generated coefficient values
    vals = {}
    for name, var in model.vars.items():
        if name.endswith("_beta"):
            v = (0.3 * rng.normal(size=np.shape(var.value))).astype(dt)
            var.value = v
            vals[name] = np.asarray(v, dtype=np.float64)
        elif name.endswith("_tau2"):
            v = dt(math.exp(rng.normal()))
            var.value = v
            vals[name] = float(v)
    model.update()
    # hand-written oracle
    X1d, X2d, Zd, yd = (np.asarray(a, dtype=np.float64) for a in (X1, X2, Z, y))
    eta = X1d @ vals[f"{main}_p0_beta"]
    lprior = np.sum(sps.norm.logpdf(vals[f"{main}_p0_beta"], c["m"], c["s"]))
    absum = np.sum(np.abs(sps.norm.logpdf(vals[f"{main}_p0_beta"], c["m"], c["s"])))
    if c["np_loc"]:
        beta, tau2 = vals[f"{main}_np0_beta"], vals[f"{main}_np0_tau2"]
        eta = eta + Zd @ beta
        r = int(np.linalg.matrix_rank(K))
        w = np.linalg.eigvalsh(np.asarray(K, dtype=np.float64))
        lpd = float(np.sum(np.log(w[-r:]))) - r * math.log(tau2)
        lb = -0.5 * (r * math.log(2 * math.pi) - lpd) - 0.5 * beta @ (np.asarray(K, np.float64) / tau2) @ beta
        lt = float(sps.invgamma.logpdf(tau2, c["a"], scale=c["b"]))
        lprior += lb + lt
        absum += abs(lb) + abs(lt) + 0.5 * abs(beta) @ np.abs(K / tau2) @ abs(beta)
    if c["family"] == "normal":
        bs = vals["scale_p0_beta"]
        scale = np.exp(X2d @ bs)
        ll = sps.norm.logpdf(yd, eta, scale)
        lprior += np.sum(sps.norm.logpdf(bs, c["m"], c["s"]))
        absum += np.sum(np.abs(sps.norm.logpdf(bs, c["m"], c["s"])))
    else:
        ll = sps.poisson.logpmf(yd, np.exp(eta))
    absum += np.sum(np.abs(ll))
    t = mg.tol(float(absum), n + 6, x64()) * 4
    got = {w: float(np.asarray(getattr(model, w))) for w in ("log_prob", "log_lik", "log_prior")}
    exp = {"log_lik": float(np.sum(ll)), "log_prior": float(lprior), "log_prob": float(np.sum(ll) + lprior)}
    for w in got:
        require(abs(got[w] - exp[w]) <= t, f"distreg:{w}", lambda: f"{w}: got {got[w]} expected {exp[w]} (tol {t:.2e}); {det()}")
    require(abs(got["log_prob"] - got["log_lik"] - got["log_prior"]) <= t, "distreg:decomposition", det)
    return {"nt": bool(c["np_loc"]), "cls": ["x64" if x64() else "f32", c["family"], "np" if c["np_loc"] else "p-only"]}


# ------------------------------------------------------------------------------ default bijectors with variable arguments
def gen_dep_bounds():
    from hypothesis import strategies as st

    fl = st.floats(-3.0, 3.0, allow_nan=False, width=32)
    step = st.tuples(st.sampled_from(["low", "width", "xt", "low", "width"]), fl)
    return st.fixed_dictionaries({"family": st.sampled_from(["Uniform", "TruncatedNormal"]), "how": st.sampled_from(["transform", "auto", "transform_late"]),
                                  "low": fl, "width": st.floats(0.25, 4.0, width=32), "x01": st.sampled_from([0.0625, 0.25, 0.5, 0.75, 0.9375]),
                                  "steps": st.lists(step, min_size=1, max_size=6), "free": st.booleans()})


def oracle_dep_bounds(c):
    """x ~ Uniform(low, high) / TruncatedNormal(0.3, 1.5, low, high) with `low`, `high` model variables, x transformed with the DEFAULT
    event-space bijector (Sigmoid(low, high), built from the variables): after any assignment to low / high / the transformed value,
    value(x), log_prob, log_prior and log_lik equal the float64 change-of-variables formulas at the CURRENT bounds."""
    dt = np.float64 if x64() else np.float32
    lo0, w0 = float(c["low"]), float(c["width"])
    low = lsl.param(dt(lo0), lsl.Dist(tfd.Normal, loc=dt(0.0), scale=dt(5.0)), name="low")
    width = lsl.param(dt(w0), lsl.Dist(tfd.Gamma, concentration=dt(2.0), rate=dt(1.0)), name="width")
    high = lsl.Var(lsl.Calc(lambda a, b: a + b, low, width), name="high")
    x0 = dt(lo0 + w0 * float(c["x01"]))
    if c["family"] == "Uniform":
        dist = lsl.Dist(tfd.Uniform, low=low, high=high)
    else:
        dist = lsl.Dist(tfd.TruncatedNormal, loc=dt(0.3), scale=dt(1.5), low=low, high=high)
    x = lsl.param(x0, dist, name="x")
    y = lsl.obs(dt(0.7), lsl.Dist(tfd.Normal, loc=x, scale=dt(2.0)), name="y")
    extra = []
    if c.get("free"):
        # a distribution node that belongs to no variable (a soft constraint tying width to low): part of log_prob, of neither prior nor likelihood
        soft = lsl.Dist(tfd.Normal, loc=low, scale=dt(3.0), _name="soft_constraint")
        soft.at = width.var_value_node
        extra = [soft]
    how = c["how"] if not (x64() and c["how"] == "transform_late") else "transform"   # the deprecated GraphBuilder.transform computes in float32
    if how == "auto":
        x.auto_transform = True
        model = lsl.GraphBuilder(to_float32=not x64()).add(y, *extra).build_model()
    elif how == "transform":
        x.transform()
        model = lsl.GraphBuilder(to_float32=not x64()).add(y, *extra).build_model()
    else:
        gb = lsl.GraphBuilder(to_float32=not x64()).add(y, *extra)
        gb.transform(x)
        model = gb.build_model()
    tname = "x_transformed"
    require(tname in model.vars, "default-transform-missing", lambda: f"{sorted(model.vars)}")
    cur = {"low": lo0, "width": w0, "xt": float(np.asarray(model.vars[tname].value))}
    det = f"{c}"
    moved_bound = False

    def check(tag):
        lo, w, xt = np.float64(cur["low"]), np.float64(cur["width"]), np.float64(cur["xt"])
        sg = 1.0 / (1.0 + np.exp(-xt))
        xv = lo + w * sg
        ljac = np.log(w) + np.log(sg) + np.log1p(-sg)
        if c["family"] == "Uniform":
            lpx = -np.log(w)
        else:
            a, b = (lo - 0.3) / 1.5, (lo + w - 0.3) / 1.5
            lpx = sps.truncnorm.logpdf(xv, a, b, loc=0.3, scale=1.5)
        prior = sps.norm.logpdf(lo, 0.0, 5.0) + sps.gamma.logpdf(w, 2.0, scale=1.0) + lpx + ljac
        lik = sps.norm.logpdf(0.7, xv, 2.0)
        tol = (1e-9 if x64() else 2e-4) * (1 + abs(prior) + abs(lik) + abs(ljac))
        gx = float(np.asarray(model.vars["x"].value))
        require(abs(gx - xv) <= (1e-9 if x64() else 2e-5) * (1 + abs(xv) + abs(lo) + w), "dep-bounds:value-of-x-stale", lambda: f"{tag}: x={gx} expected {xv} at {cur}; {det}")
        free = sps.norm.logpdf(w, lo, 3.0) if c.get("free") else 0.0
        for name, want in (("log_prior", prior), ("log_lik", lik), ("log_prob", prior + lik + free)):
            got = float(np.asarray(getattr(model, name)))
            require(abs(got - want) <= tol, f"dep-bounds:{name}", lambda: f"{tag}: {name}={got} expected {want} at {cur}; {det}")

    check("after build")
    for i, (what, v) in enumerate(c["steps"]):
        if what == "low":
            cur["low"] = float(dt(v)); model.vars["low"].value = dt(v); moved_bound = True
        elif what == "width":
            cur["width"] = float(dt(0.25 + abs(v))); model.vars["width"].value = dt(0.25 + abs(v)); moved_bound = True
        else:
            cur["xt"] = float(dt(v)); model.vars[tname].value = dt(v)
        check(f"step {i} ({what})")
    return {"nt": moved_bound, "cls": [c["family"], how, "free-dist" if c.get("free") else "var-dists-only", "bound-moved" if moved_bound else "bounds-fixed"]}


SUBS = [
    Sub("programs", oracle, gen=gen, n={"quick": 1600, "thorough": 30000}, shrink_calls=150, what="generated model programs vs float64 scipy evaluator"),
    Sub("dep_bounds", oracle_dep_bounds, gen=gen_dep_bounds, n={"quick": 96, "thorough": 2000}, shrink_calls=40,
        what="default event-space bijector whose arguments are model variables, re-assigned after the build"),
    Sub("distreg", oracle_distreg, gen=gen_distreg, n={"quick": 64, "thorough": 1200}, shrink_calls=40, what="DistRegBuilder models vs hand-written evaluation"),
]
