"""C10 — Sampling is reproducible; chains independent; initial values honoured.

Sub-oracles
  probe_keys      lab schedules with key-recording ProbeKernels through EngineBuilder (int seed or PRNG key, jitter functions
                  none / deterministic / key-revealing, replicated or per-chain initial states): bit-identical reruns,
                  int seed == PRNGKey(seed), every key received by any kernel call (init, start, transition, end, tune,
                  end_warmup) in any chain is distinct - also from the keys handed to 0-3 key-recording quantity generators, whose
                  output is part of the compared results -, first stored sample == supplied initial value after jitter
  random_kernels  RW / IWLS / NUTS / HMC on a small target through EngineBuilder with per-chain initial states: reruns are
                  bit-identical and perturbing one chain's initial value leaves every other chain's trajectory bit-identical
"""
from __future__ import annotations

import numpy as np

from vlib import enginelab as el
from vlib.lz import gs, jax, jnp, tree_equal_bits
from vlib.runner import Sub, require

from liesel.goose.epoch import EpochConfig, EpochType

PROPERTY = "C10"
RULE = ("cases = engine specs through EngineBuilder: seed (int or key), 1-4 chains, 1-3 kernels, schedule with chunk = builder gcd, jitter "
        "function kind per kernel key (none, deterministic shift, key-revealing), single replicated or per-chain initial states, and a "
        "(chain, key, delta) perturbation; non-trivial = >= 2 chains and >= 2 kernels and jitter on and (per-chain states or a perturbation "
        "that changes a value); distinct = SHA-1 of the spec")
ASSUMPTIONS = [
    "key distinctness is checked on the keys actually observed in the run (all kernel calls x chains x iterations), not over the key space",
    "a kernel call's key counts as distinct only if no quantity generator of the same run received it either (both consume the engine's per-chain key stream)",
    "key-revealing jitter adds (key_word >> 9) to an integer-valued float32 < 2**23, which is exact, so the jitter key can be read back",
]
SHARDS = {"quick": 16, "thorough": 16}
TECHNIQUE = ("Hypothesis-generated builder configurations; rerun / seed-representation / perturbation metamorphic relations; "
             "key-recording probe kernels and key-revealing jitter functions")
LEVEL_TEXT = ("Generated-configuration testing with metamorphic oracles: same inputs => bit-identical results; integer seed == PRNG key; "
              "perturbing one chain's initial value must not change any other chain; all PRNG keys received by kernel calls are pairwise "
              "distinct; stored sample 0 equals the supplied (replicated or per-chain) initial value after the configured jitter, whose keys "
              "differ between chains and position keys. Exploration, not proof.")
LEVEL_NOTE = "Trusts JAX determinism on CPU within one process and the probe kernel's key recording."


def gen_probe():
    from hypothesis import strategies as st

    base = el.schedule_strategy(max_dur=8, max_epochs=4, chains=(1, 4), want_script=False)

    @st.composite
    def g(draw):
        sp = draw(base)
        # "for all seeds": also integers beyond 32 bits and negative ones (clock-based seeds)
        sp["seed"] = draw(st.one_of(st.integers(0, 2**20), st.integers(0, 2**20), st.integers(2**32, 2**32 + 2**20), st.integers(-2**20, -1)))
        sp["chains"] = draw(st.sampled_from([1, 2, 2, 3, 3, 4]))
        sp["recycle"] = draw(st.booleans())
        # quantity generators are part of the results and draw from the same per-chain key stream as the kernels (0 = feature unused;
        # as many generators as kernels is the shape in which jax.random.split(k, n) of two different parents could collide)
        sp["gens"] = draw(st.sampled_from([0, 0, 1, 2, 3, len(sp["kernels"]), len(sp["kernels"])]))
        kkeys = [k for kk in sp["kernels"] for k in kk["keys"]]
        sp["as_key"] = draw(st.booleans())
        sp["multi"] = draw(st.booleans())
        # jitter functions for kernel keys and for tracked keys that no kernel samples (e.g. a quantity held fixed within a chain)
        sp["jitter"] = {k: draw(st.sampled_from(["none", "shift", "reveal", "reveal"])) for k in kkeys + [k for k in sp["included"] if k not in kkeys]}
        if draw(st.integers(0, 3)) == 0:
            sp["jitter"] = {}
        sp["jitter_order"] = draw(st.permutations(sorted(sp["jitter"])))
        sp["perturb"] = [draw(st.integers(0, sp["chains"] - 1)), draw(st.sampled_from(el.POOL)), draw(st.integers(1, 40))]
        return sp

    return g()


def _shift(key, val):
    return val + 3.0


def _reveal(key, val):
    w = el._key_words(key)
    add = (w[0] >> 9).astype(jnp.float32)
    return val + add


class KeyGen:
    """Quantity generator recording the PRNG key it is handed (per chain and iteration)."""
    error_book = {0: "no errors"}

    def __init__(self, ident):
        self.identifier = ident
        self._model = None

    def set_model(self, model):
        self._model = model

    def has_model(self):
        return self._model is not None

    def generate(self, prng_key, model_state, epoch):
        return {"key": el._key_words(prng_key), "error_code": jnp.int32(0)}


def build(spec, seed_as_key=None, perturb=None, seed=None, second_build=False):
    s = spec["seed"] if seed is None else seed
    as_key = spec["as_key"] if seed_as_key is None else seed_as_key
    b = gs.EngineBuilder(seed=jax.random.PRNGKey(s) if as_key else int(s), num_chains=spec["chains"])
    b.show_progress = False
    b.store_kernel_states = spec["store_ks"]
    b.set_epochs([EpochConfig(EpochType(t), d, k, None) for t, d, k in spec["epochs"]])
    model = el.make_model()
    b.set_model(model)
    states = el.initial_states(spec, perturb)
    if spec["multi"]:
        b.set_initial_values(states, multiple_chains=True)
    else:
        single = jax.tree_util.tree_map(lambda x: x[0], states)
        b.set_initial_values(single)
        if spec.get("recycle") and isinstance(single, dict):
            # the caller re-uses its container for something else before build(): the values supplied above must still be the ones used
            for kk in list(single):
                single[kk] = jnp.asarray(single[kk]) + 17
    for k in el.make_kernels(spec, []):
        b.add_kernel(k)
    for g in range(spec.get("gens", 0)):
        b.add_quantity_generator(KeyGen(f"gen{g}"))
    b.positions_included = list(spec["included"])
    b.positions_excluded = []
    fns = {}
    for k in spec["jitter_order"]:
        kind = spec["jitter"][k]
        if kind == "shift":
            fns[k] = _shift
        elif kind == "reveal":
            fns[k] = _reveal
    if fns:
        b.set_jitter_fns(fns)
    eng = b.build()
    eng.sample_all_epochs()
    if second_build:
        eng2 = b.build()            # the same builder builds again: must be an identical, independent run
        eng2.sample_all_epochs()
        return eng.get_results(), states, eng2.get_results()
    return eng.get_results(), states


def everything(res):
    out = {"pos": res.get_samples(), "ti": res.transition_infos.combine_all().unwrap()}
    if res.kernel_states.is_some():
        out["ks"] = res.kernel_states.unwrap().combine_all().unwrap()
    if res.generated_quantities.is_some():
        out["gq"] = res.generated_quantities.unwrap().combine_all().unwrap()
    return out


def oracle_probe(spec):
    spec = dict(spec, excluded=[])
    det = f"epochs={spec['epochs']} chains={spec['chains']} multi={spec['multi']} jitter={spec['jitter']} as_key={spec['as_key']} gens={spec.get('gens', 0)}"
    if spec["seed"] % 3 == 0:
        res, states, res_again = build(spec, second_build=True)
        require(tree_equal_bits(everything(res), everything(res_again)), "second-build-from-same-builder-differs", det)
    else:
        res, states = build(spec)
    base = everything(res)
    # --- reproducibility and seed representation
    # (one extra run with the other seed representation checks both laws; a plain rerun tells them apart on failure)
    res3, _ = build(spec, seed_as_key=not spec["as_key"])
    if not tree_equal_bits(base, everything(res3)):
        res2, _ = build(spec)
        require(tree_equal_bits(base, everything(res2)), "rerun-differs", det)
        require(False, "int-seed-vs-key-differs", det)
    tis = base["ti"]
    if spec["seed"] % 4 == 0:  # sanity of the harness (not a property): a different seed gives different keys
        res4, _ = build(spec, seed=spec["seed"] + 1)
        tis4 = everything(res4)["ti"]
        if tree_equal_bits({k: v.key for k, v in tis.items()}, {k: v.key for k, v in tis4.items()}):
            require(False, "seed-ignored", det)
    # --- distinct keys over all kernel calls
    C = spec["chains"]
    allkeys = []
    for ident, ti in tis.items():
        k = np.asarray(ti.key).astype(np.uint64)                       # (C, T, 2)
        allkeys.append((k[..., 0] << np.uint64(32) | k[..., 1]).reshape(-1))
        ks = el.unpack_ks(ti.ks)
        for f in el.KEY_FIELDS:
            w = ks[f].astype(np.uint64)                                # (C, T, 2)
            packed = (w[..., 0] << np.uint64(32) | w[..., 1])
            for c in range(C):
                u = np.unique(packed[c])
                allkeys.append(u[u != 0])
    n_kernel_keys = int(sum(len(a) for a in allkeys))
    # keys handed to quantity generators come from the same per-chain stream: a kernel call's key is not "distinct" if a generator in the
    # same run was handed the same one (their draws would be perfectly dependent)
    for ident, q in base.get("gq", {}).items():
        k = np.asarray(q["key"]).astype(np.uint64)                     # (C, T + 1, 2)
        allkeys.append((k[..., 0] << np.uint64(32) | k[..., 1]).reshape(-1))
    if spec.get("gens", 0):
        require("gq" in base and len(base["gq"]) == spec["gens"], "generated-quantities-missing", det)
    flat = np.concatenate(allkeys)
    uniq, counts = np.unique(flat, return_counts=True)
    # a life-cycle key legitimately shows up once per (field, chain, kernel, event); transition keys once
    require(len(uniq) == len(flat), "duplicate-prng-key", lambda: f"{len(flat) - len(uniq)} repeated keys among {len(flat)} kernel calls; {det}")
    # --- initial values honoured
    pos = base["pos"]
    kkeys = [k for kk in spec["kernels"] for k in kk["keys"]]
    reveal_parts = []
    for k in pos:
        got0 = np.asarray(pos[k])[:, 0]
        init = np.asarray(states[k]) if spec["multi"] else np.broadcast_to(np.asarray(states[k])[0], np.asarray(states[k]).shape)
        kind = spec["jitter"].get(k, "none")
        if kind == "none":
            require(np.array_equal(got0, init), "initial-value-not-honoured", lambda: f"key {k}: stored[0]={got0.tolist()} supplied={init.tolist()}; {det}")
        elif kind == "shift":
            require(np.array_equal(got0, init + 3.0), "initial-value-jitter-wrong", lambda: f"key {k}: stored[0]={got0.tolist()} expected={(init + 3).tolist()}; {det}")
        else:
            d = (got0 - init).reshape(C, -1)
            ok = np.all(d == d[:, :1]) and np.all(d[:, 0] >= 0) and np.all(d[:, 0] < 2**23) and np.all(d[:, 0] == np.floor(d[:, 0]))
            require(bool(ok), "initial-value-jitter-wrong", lambda: f"key {k}: stored[0]-supplied={d.tolist()}; {det}")
            reveal_parts += [(k, c, int(d[c, 0])) for c in range(C)]
    vals = [v for _, _, v in reveal_parts]
    require(len(set(vals)) == len(vals), "jitter-key-shared", lambda: f"jitter key parts {reveal_parts}; {det}")
    # --- chain independence (probe kernels are deterministic: the perturbed chain must be the only one that changes)
    pc, pk, pd = spec["perturb"]
    moved = False
    if spec["multi"]:
        resp, _ = build(spec, perturb=(pc, pk, pd))
        pp = everything(resp)
        for c in range(C):
            a = jax.tree_util.tree_map(lambda x: np.asarray(x)[c], base)
            b_ = jax.tree_util.tree_map(lambda x: np.asarray(x)[c], pp)
            same = tree_equal_bits(a, b_)
            if c != pc:
                require(same, "chain-affected-by-other-chain", lambda: f"chain {c} changed when chain {pc}'s initial {pk} was shifted by {pd}; {det}")
            else:
                moved = not same
    jit_on = any(v != "none" for v in spec["jitter"].values())
    nt = C >= 2 and len(spec["kernels"]) >= 2 and jit_on and (spec["multi"] or moved)
    cls = [f"chains{C}", f"kernels{len(spec['kernels'])}", "multi" if spec["multi"] else "replicated", "jitter" if jit_on else "nojitter",
           "reveal" if reveal_parts else "noreveal", "as_key" if spec["as_key"] else "int-seed", "perturbed-moved" if moved else "no-move",
           f"gens{spec.get('gens', 0)}" + ("=kernels" if spec.get("gens", 0) == len(spec["kernels"]) else "")]
    return {"nt": bool(nt), "cls": cls, "extra": {"keys_checked": int(len(flat)), "kernel_keys": n_kernel_keys}}


# ------------------------------------------------------------------------------ random kernels
def gen_random():
    from hypothesis import strategies as st

    return st.fixed_dictionaries({
        "seed": st.integers(0, 2**20), "chains": st.integers(2, 4), "kernel": st.sampled_from(["rw", "iwls", "nuts", "hmc", "rw+nuts"]),
        "warm": st.sampled_from([0, 4, 8]), "post": st.sampled_from([4, 6, 8]), "pchain": st.integers(0, 3), "delta": st.sampled_from([0.25, 1.0, -2.0]),
        "as_key": st.booleans(),
    })


def _target():
    def lp(s):
        return -0.5 * jnp.sum((s["x"] - 1.0) ** 2) - 0.5 * jnp.sum(s["y"] ** 2 / 4.0) - 0.1 * jnp.sum(s["x"]) * s["y"]

    return gs.DictInterface(lp)


def build_random(c, perturb):
    C = c["chains"]
    b = gs.EngineBuilder(seed=jax.random.PRNGKey(c["seed"]) if c["as_key"] else c["seed"], num_chains=C)
    b.show_progress = False
    eps = [EpochConfig(EpochType.INITIAL_VALUES, 1, 1, None)]
    if c["warm"]:
        eps.append(EpochConfig(EpochType.FAST_ADAPTATION, c["warm"], 1, None))
    eps.append(EpochConfig(EpochType.POSTERIOR, c["post"], 1, None))
    b.set_epochs(eps)
    b.set_model(_target())
    x0 = np.tile(np.array([0.5, -0.5], dtype=np.float32), (C, 1)) + 0.1 * np.arange(C, dtype=np.float32)[:, None]
    y0 = np.linspace(-1, 1, C).astype(np.float32)
    if perturb:
        x0[c["pchain"] % C, 0] += c["delta"]
    b.set_initial_values({"x": jnp.asarray(x0), "y": jnp.asarray(y0)}, multiple_chains=True)
    kinds = c["kernel"].split("+")
    keys = [["x", "y"]] if len(kinds) == 1 else [["x"], ["y"]]
    for kind, ks in zip(kinds, keys):
        if kind == "rw":
            b.add_kernel(gs.RWKernel(ks, initial_step_size=0.7))
        elif kind == "iwls":
            b.add_kernel(gs.IWLSKernel(ks, initial_step_size=0.7))
        elif kind == "nuts":
            b.add_kernel(gs.NUTSKernel(ks, initial_step_size=0.3, max_treedepth=4))
        else:
            b.add_kernel(gs.HMCKernel(ks, initial_step_size=0.3, num_integration_steps=3))
    eng = b.build()
    eng.sample_all_epochs()
    res = eng.get_results()
    return {"pos": res.get_samples(), "ti": res.transition_infos.combine_all().unwrap()}


def oracle_random(c):
    a = build_random(c, False)
    b_ = build_random(c, False)
    require(tree_equal_bits(a, b_), "rerun-differs", f"{c}")
    x0 = np.asarray(a["pos"]["x"])[:, 0]
    C = c["chains"]
    exp0 = np.tile(np.array([0.5, -0.5], dtype=np.float32), (C, 1)) + 0.1 * np.arange(C, dtype=np.float32)[:, None]
    require(np.array_equal(x0, exp0), "initial-value-not-honoured", lambda: f"{c}: stored[0]={x0.tolist()} supplied={exp0.tolist()}")
    p = build_random(c, True)
    pc = c["pchain"] % C
    moved = False
    for ch in range(C):
        sa = jax.tree_util.tree_map(lambda x: np.asarray(x)[ch], a)
        sp = jax.tree_util.tree_map(lambda x: np.asarray(x)[ch], p)
        same = tree_equal_bits(sa, sp)
        if ch != pc:
            require(same, "chain-affected-by-other-chain", f"chain {ch} changed when chain {pc} was perturbed; {c}")
        else:
            moved = not same
    # chains use different randomness: trajectories of different chains differ even from nearly equal starts
    xs = np.asarray(a["pos"]["x"])
    require(len({xs[ch].tobytes() for ch in range(C)}) == C, "chains-identical", f"{c}")
    return {"nt": bool(moved), "cls": [c["kernel"], f"chains{C}", "warm" if c["warm"] else "nowarm"]}


# ------------------------------------------------------------------------------ separate interpreter processes (hash randomisation)
def digest_of(spec):
    import hashlib

    res, _ = build(spec)
    h = hashlib.sha256()
    ev = everything(res)
    for leaf in jax.tree_util.tree_leaves(ev):
        h.update(np.ascontiguousarray(np.asarray(leaf)).tobytes())
    return h.hexdigest()


def gen_cross():
    from hypothesis import strategies as st

    base = el.schedule_strategy(max_dur=6, max_epochs=3, chains=(1, 2), want_script=False, min_kernels=3)

    def fix(sp):
        sp.update(as_key=False, multi=False, jitter={}, jitter_order=[], perturb=[0, "a", 1], excluded=[])
        return sp

    return base.map(fix)


def oracle_cross(spec):
    import json
    import os
    import subprocess
    import sys

    here = digest_of(spec)
    digs = {"this": here}
    for hs in ("1", "2", "3"):
        env = dict(os.environ, PYTHONHASHSEED=hs)
        out = subprocess.run([sys.executable, "-m", "checks.c10_repro", "--child", json.dumps(spec)], env=env, capture_output=True, text=True, cwd=os.environ.get("VERIF_DIR", "."))
        line = [ln for ln in out.stdout.splitlines() if ln.startswith("DIGEST ")]
        if not line:
            raise RuntimeError(f"harness: child process failed: {out.stderr[-800:]}")
        digs[hs] = line[-1].split()[1]
    require(len(set(digs.values())) == 1, "result-depends-on-interpreter-hash-seed", f"digests {digs}; kernels={len(spec['kernels'])}; {spec}")
    return {"nt": len(spec["kernels"]) >= 3, "cls": [f"kernels{len(spec['kernels'])}"]}


SUBS = [
    Sub("probe_keys", oracle_probe, gen=gen_probe, n={"quick": 48, "thorough": 1600}, shrink_calls=30,
        what="builder runs with key-recording probe kernels: rerun, int seed == key, distinct keys, initial values + jitter, independence"),
    Sub("random_kernels", oracle_random, gen=gen_random, n={"quick": 12, "thorough": 400}, shrink_calls=10,
        what="RW / IWLS / NUTS / HMC: rerun bit-identical; perturbing one chain leaves the others unchanged"),
    Sub("cross_process", oracle_cross, gen=gen_cross, n={"quick": 8, "thorough": 60}, shrink={"quick": False, "thorough": False}, min_per_shard=2,
        what="the same run in separate interpreter processes with different PYTHONHASHSEED values gives bit-identical results"),
]


if __name__ == "__main__":
    import json
    import sys

    if len(sys.argv) >= 3 and sys.argv[1] == "--child":
        print("DIGEST", digest_of(json.loads(sys.argv[2])))
