"""C20 — optim_flat: documented stopping rule, restored optimum, fresh minibatches.

Sub-oracles
  stopper_exhaustive  every loss history of length L over a dyadic alphabet x iteration index x patience x (atol, rtol):
                      Stopper.stop_early / stop_now / continue_ / which_best_in_recent_history vs the documented rule
  stopper_floats      Hypothesis float histories (incl. equal values, zeros, negatives) against the same rule
  end_to_end          small regression models through optim_flat: returned position == recorded position at iteration_best,
                      iteration_best minimises the validation loss in the final patience window, history lengths / NaN padding,
                      recorded losses == independently evaluated losses, stop iteration consistent with the rule, model_state
                      consistent with position
  fresh_minibatches   batch size not dividing n: every observation must influence the fit (perturbing y_j changes the result)
"""
from __future__ import annotations

import itertools

import numpy as np

from vlib.lz import gs, jax, jnp, lsl, tfd, silence
from vlib.runner import Sub, Violation, require

from liesel.goose.optim import Stopper, optim_flat

PROPERTY = "C20"
RULE = ("stopper: all loss histories of length 5 over {0, -0.125, 0.125, 1, 1.125, 1.25, 2} (thorough: length 6 over that alphabet and length 7 without 1.25) x i x patience 1..L x "
        "(atol, rtol) in {0, 0.125, 0.25}^2, plus Hypothesis float histories (half of them with the oldest loss of the window placed at a generated multiple of a threshold); end-to-end: generated regression data sets, optimisers, "
        "Stopper settings, validation model on/off, restore/prune flags, batch sizes dividing and not dividing n. Non-trivial = window "
        "minimum is not its oldest entry and the window is full (stopper); batch size not dividing n or early stop before max_iter "
        "(end-to-end). Distinct = SHA-1 of the case")
ASSUMPTIONS = [
    "documented rule re-implemented in float32 numpy from the Stopper docstring; for i in {patience-1, patience} (full window but the "
    "implementation's `i > patience` guard) only soundness is required: a stop there must satisfy the rule",
    "patience <= max_iter (larger values make the slice exceed the history and are outside the domain)",
    "fresh minibatches are observed black-box through the influence of single observations on the fitted position",
]
SHARDS = {"quick": 16, "thorough": 16}
EXHAUSTIVE = True
TECHNIQUE = ("exhaustive enumeration of loss histories over a dyadic alphabet against the documented stopping pseudo-code; Hypothesis "
             "end-to-end optimisation runs with invariant oracles; observation-influence metamorphic test for minibatching")
LEVEL_TEXT = ("Generated-input search: the stopper is compared with the documented rule on every history of a small alphabet "
              "(vectorised through jit(vmap)), optim_flat results are checked against invariants that tie position, iteration_best, "
              "histories and model_state together with independently evaluated losses, and minibatch freshness is decided by perturbing "
              "single observations. The stale-batch-key defect is a listed known finding. Exhaustive only for the stated alphabet/lengths.")
LEVEL_NOTE = "Trusts the numpy re-implementation of the documented rule and an independent numpy evaluation of the regression log-posterior."

F32 = np.float32
ALPHA = [0.0, -0.125, 0.125, 1.0, 1.125, 2.0]
ALPHA7 = ALPHA + [1.25]          # 1.25 vs best 1.0: diff above each tolerance of 0.125 alone but within their sum (the two tests are alternatives, not additive)
TOLS = [0.0, 0.125, 0.25]


def rule_np(window, atol, rtol):
    """documented rule on full windows (float32), vectorised over rows of `window`"""
    with np.errstate(all="ignore"):
        best = window.min(axis=1)
        oldest = window[:, 0]
        diff = (oldest - best).astype(F32)
        rel = (diff / np.abs(best)).astype(F32)
        return (diff <= F32(atol)) | (rel <= F32(rtol))


_cache = {}


def stopper_fns(p, atol, rtol, max_iter):
    k = (p, atol, rtol, max_iter)
    if k not in _cache:
        s = Stopper(max_iter=max_iter, patience=p, atol=atol, rtol=rtol)
        _cache[k] = (jax.jit(jax.vmap(s.stop_early)), jax.jit(jax.vmap(s.stop_now)), jax.jit(jax.vmap(s.continue_)),
                     jax.jit(jax.vmap(s.which_best_in_recent_history)))
    return _cache[k]


def judge_stopper(p, atol, rtol, max_iter, I, H):
    """I: int array (n,), H: float32 (n, L).  Returns list of (index, signature, detail)."""
    se, sn, co, wb = stopper_fns(p, atol, rtol, max_iter)
    Ij, Hj = jnp.asarray(I.astype(np.int32)), jnp.asarray(H.astype(F32))
    stop_early, stop_now, cont = np.asarray(se(Ij, Hj)), np.asarray(sn(Ij, Hj)), np.asarray(co(Ij, Hj))
    n, L = H.shape
    full = I >= p - 1
    fails = []
    # windows for full cases
    idx = np.where(full)[0]
    win = np.stack([H[j, I[j] - p + 1: I[j] + 1] for j in idx]) if len(idx) else np.zeros((0, p), dtype=F32)
    rule = np.zeros(n, dtype=bool)
    rule[idx] = rule_np(win, atol, rtol)
    for j in np.where(~full & stop_early)[0]:
        fails.append((j, "stop_early:before-full-window", ""))
    must = I > p
    for j in np.where(must & (stop_early != rule))[0]:
        fails.append((j, "stop_early:" + ("missed-stop" if rule[j] else "stops-against-rule"), ""))
    edge = full & ~must
    for j in np.where(edge & stop_early & ~rule)[0]:
        fails.append((j, "stop_early:stops-against-rule", "edge"))
    exp_now = stop_early | (I >= max_iter - 1)
    for j in np.where(stop_now != exp_now)[0]:
        fails.append((j, "stop_now:max-iter-rule", ""))
    for j in np.where(cont != ~stop_now)[0]:
        fails.append((j, "continue:not-negation", ""))
    # eager calls with a plain Python int counter (direct use of the public methods) agree with the traced ones
    s_eager = Stopper(max_iter=max_iter, patience=p, atol=atol, rtol=rtol)
    for j in sorted(set(list(range(0, n, max(1, n // 24))) + [n - 1])):
        hj, ij = jnp.asarray(H[j].astype(F32)), int(I[j])
        got = (bool(s_eager.stop_early(ij, hj)), bool(s_eager.stop_now(ij, hj)), bool(s_eager.continue_(ij, hj)))
        exp3 = (bool(stop_early[j]), bool(stop_now[j]), bool(cont[j]))
        if got != exp3:
            fails.append((j, "eager-call-with-python-int-differs-from-traced-call", f"(stop_early, stop_now, continue_) eager {got} traced {exp3}"))
    if len(idx):
        best = np.asarray(wb(Ij[idx], Hj[idx]))
        exp = I[idx] - p + 1 + np.argmin(win, axis=1)
        for jj in np.where(best != exp)[0]:
            fails.append((idx[jj], "which_best:not-first-argmin-of-window", f"got {best[jj]} expected {exp[jj]}"))
    nontrivial = full & (np.concatenate([np.argmin(win, axis=1), []])[np.searchsorted(idx, np.arange(n)).clip(0, max(len(idx) - 1, 0))] != 0 if len(idx) else False)
    return fails, nontrivial


def oracle_stopper_case(case):
    """replay form: one (p, atol, rtol, max_iter, i, history)"""
    H = np.array([case["h"]], dtype=F32)
    I = np.array([case["i"]])
    fails, nt = judge_stopper(case["p"], case["atol"], case["rtol"], case["max_iter"], I, H)
    if fails:
        raise Violation(fails[0][1], f"{case} {fails[0][2]}")
    return {"nt": bool(np.any(nt)), "cls": [f"p{case['p']}"]}


def run_stopper_exhaustive(ctx):
    plans = [(ALPHA7, 5)] if ctx.tier == "quick" else [(ALPHA7, 6), (ALPHA, 7)]
    # mi = L: history buffer as long as the limit; mi = L + 3: buffer zero-padded to the limit (as optim_flat does) or, "short", just the
    # L losses recorded so far (direct use of the public Stopper methods)
    configs = [(al, L, p, a, r, mi, pad) for al, L in plans for p in range(1, L + 1) for a in TOLS for r in TOLS for mi, pad in ((L, True), (L + 3, True), (L + 3, False))]
    n_eval = 0
    hists = {}
    for ci, (al, L, p, atol, rtol, mi, pad) in enumerate(configs):
        if ci % ctx.nshards != ctx.shard or mi < p:
            continue
        if (len(al), L) not in hists:
            hists[(len(al), L)] = np.array(list(itertools.product(al, repeat=L)), dtype=F32)
        hist = hists[(len(al), L)]
        I = np.repeat(np.arange(L), len(hist))
        H = np.tile(hist, (L, 1))
        if mi > L and pad:  # history array has length max_iter in real use; pad with zeros like optim_flat does
            H = np.concatenate([H, np.zeros((len(H), mi - L), dtype=F32)], axis=1)
        fails, nt = judge_stopper(p, atol, rtol, mi, I, H)
        st = ctx._st("stopper_exhaustive")
        st["evaluations"] += len(I)
        ntd = int(np.sum(nt))
        # distinct non-trivial cases: each (config, i, history) is distinct by construction
        st["nt_digests"].update(f"{ci}:{j}" for j in np.where(nt)[0][:2000])
        st["extra"]["nontrivial_total"] = st["extra"].get("nontrivial_total", 0) + ntd
        st["classes"][f"p{p}"] += len(I)
        if len(st["samples"]) < 2:
            st["samples"].append({"p": p, "atol": atol, "rtol": rtol, "max_iter": mi, "i": int(I[-1]), "h": H[-1].tolist()})
        seen = set()
        for j, sig, det in fails:
            if sig in seen:
                continue
            seen.add(sig)
            case = {"p": p, "atol": atol, "rtol": rtol, "max_iter": mi, "i": int(I[j]), "h": [float(x) for x in H[j]]}
            ctx.run_case("stopper_exhaustive", case, oracle_stopper_case)
        n_eval += len(I)


def gen_stopper_floats():
    from hypothesis import strategies as st
    from vlib.gens import f32

    val = st.one_of(f32(-100, 100), f32(-1, 1), st.sampled_from([0.0, 1.0, -1.0, 1e-3, 5.0]))

    @st.composite
    def g(draw):
        L = draw(st.integers(1, 40))
        p = draw(st.integers(1, L))
        h = draw(st.lists(val, min_size=L, max_size=L))
        if draw(st.booleans()):  # plateaus make the tolerance rule matter
            k = draw(st.integers(0, L - 1))
            h = h[:k] + [h[k]] * (L - k)
        atol, rtol = draw(st.sampled_from([0.0, 1e-3, 0.5, 10.0])), draw(st.sampled_from([0.0, 1e-3, 0.1, 2.0]))
        i = draw(st.integers(0, L - 1))
        if i >= p - 1 and p >= 2 and draw(st.booleans()):
            # put the oldest loss of the window at a generated multiple of one of the thresholds above the window's best loss
            w = h[i - p + 1: i + 1]
            best = min(w[1:])
            thr = draw(st.sampled_from([atol, rtol * abs(best), atol + rtol * abs(best)]))
            h[i - p + 1] = best + draw(st.sampled_from([0.5, 0.75, 0.99, 1.0, 1.01, 1.5, 2.5])) * thr
        return {"p": p, "atol": atol, "rtol": rtol,
                "max_iter": L + draw(st.integers(0, 3)), "i": i, "h": [float(F32(x)) for x in h]}

    return g()


def oracle_stopper_floats(case):
    c = dict(case)
    c["h"] = list(c["h"]) + [0.0] * (c["max_iter"] - len(c["h"]))
    return oracle_stopper_case(c)


# ------------------------------------------------------------------------------ end to end
def make_data(c):
    rng = np.random.default_rng([c["data_seed"], 20])
    n = c["n"]
    x = rng.normal(size=n).astype(F32)
    y = (0.5 + 1.5 * x + rng.normal(scale=0.7, size=n)).astype(F32)
    return x, y


def build_model(x, y):
    """y ~ N(coef[0] + coef[1] x + bias, 1): two parameter blocks (`coef` vector, `bias` scalar) so that the order in which the user lists
    them in `params` matters"""
    coef = lsl.param(np.zeros(2, dtype=F32), lsl.Dist(tfd.Normal, loc=0.0, scale=10.0), name="coef")
    bias = lsl.param(F32(0.5), lsl.Dist(tfd.Normal, loc=0.0, scale=1.0), name="bias")
    X = lsl.obs(np.c_[np.ones_like(x), x].astype(F32), name="X")
    mu = lsl.Var(lsl.Calc(lambda X, c, b: jnp.dot(X, c) + b, X, coef, bias), name="mu")
    yv = lsl.obs(y, lsl.Dist(tfd.Normal, loc=mu, scale=1.0), name="y")
    return lsl.GraphBuilder().add(yv).build_model()


def neg_log_post(coef, x, y, lik_scale=1.0, bias=0.5):
    """independent float64 evaluation of the loss"""
    coef = np.asarray(coef, dtype=np.float64)
    bias = float(bias)
    mu = coef[0] + coef[1] * x.astype(np.float64) + bias
    ll = np.sum(-0.5 * (y.astype(np.float64) - mu) ** 2 - 0.5 * np.log(2 * np.pi))
    lp = np.sum(-0.5 * (coef / 10.0) ** 2 - np.log(10.0) - 0.5 * np.log(2 * np.pi)) - 0.5 * bias ** 2 - 0.5 * np.log(2 * np.pi)
    return -(lik_scale * ll + lp)


def run_optim(c, x, y, xv=None, yv=None):
    import optax

    model = build_model(x, y)
    mval = build_model(xv, yv) if xv is not None else None
    opt = optax.sgd(c["lr"]) if c["opt"] == "sgd" else optax.adam(c["lr"] * 10)
    stopper = Stopper(max_iter=c["max_iter"], patience=c["patience"], atol=c["atol"], rtol=c["rtol"])
    with silence():
        res = optim_flat(model, list(c.get("params", ["coef"])), optimizer=opt, stopper=stopper, batch_size=c["batch"], batch_seed=c["batch_seed"],
                         model_validation=mval, restore_best_position=c["restore"] and c.get("save_pos", True), prune_history=c["prune"], progress_bar=False,
                         save_position_history=c.get("save_pos", True))
    return res, model


def gen_e2e():
    from hypothesis import strategies as st

    @st.composite
    def g(draw):
        n = draw(st.integers(4, 12))
        mi = draw(st.integers(3, 40))
        return {"n": n, "data_seed": draw(st.integers(0, 10**6)), "opt": draw(st.sampled_from(["sgd", "adam"])),
                "lr": draw(st.sampled_from([0.002, 0.01, 0.03, 0.08, 0.15])), "max_iter": mi, "patience": draw(st.one_of(st.integers(1, mi), st.integers(1, min(mi, 5)))),
                "atol": draw(st.sampled_from([0.0, 1e-3, 0.05, 1.0, 1.0])), "rtol": draw(st.sampled_from([0.0, 1e-3, 0.05, 0.05])),
                "batch": draw(st.one_of(st.none(), st.integers(2, n))), "batch_seed": draw(st.integers(1, 1000)),
                "validation": draw(st.booleans()), "restore": draw(st.booleans()), "prune": draw(st.booleans()),
                "params": draw(st.sampled_from([["coef"], ["coef", "bias"], ["coef", "bias"], ["bias", "coef"]])), "save_pos": draw(st.integers(0, 3)) != 0}

    return g()


def oracle_e2e_nopos(c, res, x, y, xv, yv, det):
    """save_position_history=False: no position history; loss histories keep their documented lengths / padding, the returned position is the
    last one (its losses are the last recorded losses) and the stopping rule is the documented one"""
    it, ib, mi, p = int(res.iteration), int(res.iteration_best), c["max_iter"], c["patience"]
    h = res.history
    lv, lt = np.asarray(h["loss_validation"]), np.asarray(h["loss_train"])
    require(h.get("position") is None, "history:position-recorded-although-switched-off", det)
    if c["prune"]:
        require(lv.shape == (it + 1,) and lt.shape == (it + 1,), "history:pruned-length", f"loss_validation {lv.shape} loss_train {lt.shape}, documented length iteration + 1 = {it + 1}; {det}")
    else:
        ok = lv.shape == (mi,) and lt.shape == (mi,) and not np.any(np.isnan(lv[: it + 1])) and bool(np.all(np.isnan(lv[it + 1:]))) and bool(np.all(np.isnan(lt[it + 1:])))
        require(ok, "history:nan-padding", f"{lv.tolist()}; {det}")
    lvv, ltt = lv[: it + 1], lt[: it + 1]
    has_bias = "bias" in c.get("params", ["coef"])
    pos = np.asarray(res.position["coef"])
    bias = float(np.asarray(res.position["bias"])) if has_bias else 0.5
    if not (np.all(np.isfinite(lvv)) and np.all(np.isfinite(pos)) and np.all(np.abs(pos) < 1e15)):
        return {"nt": False, "cls": ["diverged"]}
    nval = len(yv) if c["validation"] else c["n"]
    e_tr = neg_log_post(pos, x, y, bias=bias)
    e_va = neg_log_post(pos, xv, yv, c["n"] / nval, bias=bias) if c["validation"] else e_tr
    require(abs(ltt[it] - e_tr) <= 2e-4 * (abs(e_tr) + 10), "history:loss_train-not-loss-of-returned-position", f"recorded {ltt[it]} independent {e_tr}; {det}")
    require(abs(lvv[it] - e_va) <= 2e-4 * (abs(e_va) + 10), "history:loss_validation-not-loss-of-returned-position", f"recorded {lvv[it]} independent {e_va}; {det}")
    lo = it - p + 1
    require(lo >= 0 and ib == lo + int(np.argmin(lvv[lo: it + 1])), "iteration_best:not-argmin-of-final-window", f"window={lvv[max(lo, 0): it + 1].tolist()}; {det}")
    p_eff = p if c["validation"] else mi
    stopped_early = it < mi - 1
    if stopped_early:
        w = lvv[it - p_eff + 1: it + 1][None, :] if it - p_eff + 1 >= 0 else None
        require(w is not None and bool(rule_np(w.astype(F32), c["atol"], c["rtol"])[0]), "stopped-early-against-rule", det)
    for j in range(p_eff + 1, it):
        require(not bool(rule_np(lvv[j - p_eff + 1: j + 1][None, :].astype(F32), c["atol"], c["rtol"])[0]), "missed-stop", f"rule held at j={j}; {det}")
    return {"nt": bool(stopped_early), "cls": ["early" if stopped_early else "maxiter", "val" if c["validation"] else "noval", "no-position-history",
                                               "prune" if c["prune"] else "pad"]}


def oracle_e2e(c):
    x, y = make_data(c)
    xv = yv = None
    if c["validation"]:
        xv, yv = make_data(dict(c, data_seed=c["data_seed"] + 1, n=max(4, c["n"] - 1)))
    res, model = run_optim(c, x, y, xv, yv)
    it, ib, mi, p = int(res.iteration), int(res.iteration_best), c["max_iter"], c["patience"]
    det = f"case={c} iteration={it} best={ib}"
    h = res.history
    if not c.get("save_pos", True):
        return oracle_e2e_nopos(c, res, x, y, xv, yv, det)
    lv, lt, hp = np.asarray(h["loss_validation"]), np.asarray(h["loss_train"]), np.asarray(h["position"]["coef"])
    has_bias = "bias" in c.get("params", ["coef"])
    require(sorted(h["position"].keys()) == sorted(c.get("params", ["coef"])) and sorted(res.position.keys()) == sorted(c.get("params", ["coef"])), "position-keys", det)
    hb = np.asarray(h["position"]["bias"]) if has_bias else np.full(hp.shape[0], 0.5)
    require(0 <= it <= mi - 1 and res.max_iter == mi, "iteration-out-of-range", det)
    # lengths / padding
    if c["prune"]:
        require(lv.shape == (it + 1,) and lt.shape == (it + 1,) and hp.shape == (it + 1, 2), "history:pruned-length", f"{lv.shape} {hp.shape}; {det}")
    else:
        ok = lv.shape == (mi,) and hp.shape == (mi, 2) and not np.any(np.isnan(lv[: it + 1])) and bool(np.all(np.isnan(lv[it + 1:]))) \
            and bool(np.all(np.isnan(hp[it + 1:]))) and bool(np.all(np.isnan(lt[it + 1:])))
        require(ok, "history:nan-padding", f"{lv.tolist()}; {det}")
    lvv, hpp, ltt = lv[: it + 1], hp[: it + 1], lt[: it + 1]
    if not (np.all(np.isfinite(lvv)) and np.all(np.isfinite(hpp)) and np.all(np.abs(hpp) < 1e15)):
        return {"nt": False, "cls": ["diverged"]}   # an unstable learning rate blew up: nothing to compare
    # recorded losses are the losses of the recorded positions (independent evaluation)
    nval = len(yv) if c["validation"] else c["n"]
    for k in sorted({0, it, ib, it // 2}):
        e_tr = neg_log_post(hpp[k], x, y, bias=hb[k])
        e_va = neg_log_post(hpp[k], xv, yv, c["n"] / nval, bias=hb[k]) if c["validation"] else e_tr
        tol = 2e-4 * (abs(e_tr) + 10)
        require(abs(ltt[k] - e_tr) <= tol, "history:loss_train-not-loss-of-recorded-position", f"k={k} recorded {ltt[k]} independent {e_tr}; {det}")
        require(abs(lvv[k] - e_va) <= 2e-4 * (abs(e_va) + 10), "history:loss_validation-not-loss-of-recorded-position", f"k={k} recorded {lvv[k]} independent {e_va}; {det}")
    # best iteration = first argmin of the validation loss within the final patience window
    lo = it - p + 1
    require(lo >= 0, "final-window-not-full", det)
    win = lvv[lo: it + 1]
    require(ib == lo + int(np.argmin(win)), "iteration_best:not-argmin-of-final-window", f"window={win.tolist()} lo={lo}; {det}")
    # returned position
    pos = np.asarray(res.position["coef"])
    want = hpp[ib] if c["restore"] else hpp[it]
    require(pos.shape == want.shape and np.array_equal(pos, want), "position:not-recorded-position-at-" + ("best" if c["restore"] else "last"), f"coef {pos} vs {want}; {det}")
    if has_bias:
        pb, wb = np.asarray(res.position["bias"]), (hb[ib] if c["restore"] else hb[it])
        require(pb.shape == np.shape(wb) and np.array_equal(pb, wb), "position:not-recorded-position-at-" + ("best" if c["restore"] else "last"), f"bias {pb} vs {wb}; {det}")
    # stopping iteration consistent with the documented rule applied to the recorded validation history
    p_eff = p if c["validation"] else mi
    stopped_early = it < mi - 1
    if stopped_early:
        w = lvv[it - p_eff + 1: it + 1][None, :] if it - p_eff + 1 >= 0 else None
        require(w is not None and bool(rule_np(w.astype(F32), c["atol"], c["rtol"])[0]), "stopped-early-against-rule", det)
    for j in range(p_eff + 1, it):
        w = lvv[j - p_eff + 1: j + 1][None, :].astype(F32)
        require(not bool(rule_np(w, c["atol"], c["rtol"])[0]), "missed-stop", f"rule held at j={j}; {det}")
    # model_state consistent with the returned position (direct assignment on a fresh model)
    ref = build_model(x, y)
    ref.vars["coef"].value = jnp.asarray(pos)
    if has_bias:
        ref.vars["bias"].value = jnp.asarray(res.position["bias"])
    ref.update()
    for name, ns in res.model_state.items():
        a, b = ns.value, ref.state[name].value
        if a is None or b is None:
            require(a is None and b is None, "model_state:node-missing", f"{name}; {det}")
            continue
        require(bool(np.allclose(np.asarray(a), np.asarray(b), rtol=2e-5, atol=1e-5)), "model_state:inconsistent-with-position", f"node {name}: {a} vs {b}; {det}")
    nt = stopped_early or (c["batch"] is not None and c["n"] % c["batch"] != 0)
    return {"nt": bool(nt), "cls": ["early" if stopped_early else "maxiter", "val" if c["validation"] else "noval", "batch" if c["batch"] else "fullbatch",
                                    "restore" if c["restore"] else "last", "prune" if c["prune"] else "pad", "best<it" if ib < it else "best=it"]}


# ------------------------------------------------------------------------------ fresh minibatches
def gen_fresh():
    from hypothesis import strategies as st

    @st.composite
    def g(draw):
        n = draw(st.integers(5, 9))
        b = draw(st.sampled_from([k for k in range(2, n) if n % k != 0]))
        return {"n": n, "batch": b, "batch_seed": draw(st.integers(1, 1000)), "data_seed": draw(st.integers(0, 10**6)), "max_iter": 14}

    return g()


def oracle_fresh(c):
    cc = dict(c, opt="sgd", lr=0.002, patience=c["max_iter"], atol=0.0, rtol=0.0, validation=False, restore=False, prune=True)
    x, y = make_data(cc)
    base, _ = run_optim(cc, x, y)
    b0 = np.asarray(base.position["coef"])
    dead = []
    for j in range(c["n"]):
        y2 = y.copy()
        y2[j] += 50.0
        r, _ = run_optim(cc, x, y2)
        if np.array_equal(np.asarray(r.position["coef"]), b0):
            dead.append(j)
    T = c["max_iter"] - 1
    require(not dead, "fresh_minibatches:observation-without-influence",
            f"n={c['n']} batch={c['batch']} seed={c['batch_seed']}: observations {dead} never influence the fit in {T} iterations "
            f"(each iteration drops n mod batch = {c['n'] % c['batch']} observations; with re-drawn batches the chance is < {c['n']}*({c['n'] % c['batch']}/{c['n']})^{T})")
    return {"nt": True, "cls": [f"n{c['n']}b{c['batch']}"]}


# ------------------------------------------------------------------------------ batch membership (the helper behind "re-drawn in every iteration")
def gen_membership():
    from hypothesis import strategies as st

    @st.composite
    def g(draw):
        n = draw(st.integers(2, 40))
        b = draw(st.one_of(st.integers(1, n), st.integers(max(1, n // 2), n), st.just(n - 1 if n > 2 else 1)))
        return {"n": n, "batch": b, "seed": draw(st.integers(0, 2**20))}

    return g()


def oracle_membership(c):
    """Every set of batches drawn for one iteration is a family of n // b disjoint batches of b distinct observations, and over 48 keys
    (= 48 iterations with a carried key) every observation is a member at least once and the member set is not always the same when
    b does not divide n (chance of a false alarm < n * 2^-48)."""
    from liesel.goose import optim as _optim

    f = getattr(_optim, "_generate_batch_indices", None)
    if f is None:
        return {"nt": False, "cls": ["helper-missing"]}
    n, b = c["n"], c["batch"]
    seen, member_sets = np.zeros(n, dtype=int), set()
    for i in range(48):
        idx = np.asarray(f(jax.random.PRNGKey(c["seed"] + i), n, b))
        require(idx.shape == (n // b, b), "batch_membership:shape", lambda: f"n={n} batch={b}: shape {idx.shape}")
        flat = idx.reshape(-1)
        require(len(set(flat.tolist())) == flat.size and flat.min() >= 0 and flat.max() < n, "batch_membership:not-disjoint-observations", lambda: f"n={n} batch={b}: {idx.tolist()}")
        seen[flat] += 1
        member_sets.add(tuple(sorted(flat.tolist())))
    require(bool(np.all(seen > 0)), "batch_membership:observation-never-drawn", lambda: f"n={n} batch={b} seed={c['seed']}: observations {np.where(seen == 0)[0].tolist()} in no batch over 48 keys")
    if n % b:
        require(len(member_sets) > 1, "batch_membership:same-members-for-every-key", lambda: f"n={n} batch={b} seed={c['seed']}")
    return {"nt": bool(n % b), "cls": ["divides" if n % b == 0 else "remainder", "one-batch" if n // b == 1 else "several-batches"]}


SUBS = [
    Sub("stopper_exhaustive", oracle_stopper_case, run=run_stopper_exhaustive, what="all histories over a dyadic alphabet x i x patience x tolerances"),
    Sub("stopper_floats", oracle_stopper_floats, gen=gen_stopper_floats, n={"quick": 300, "thorough": 20000}, what="Hypothesis float histories"),
    Sub("end_to_end", oracle_e2e, gen=gen_e2e, n={"quick": 64, "thorough": 600}, shrink_calls=12, min_per_shard=3, what="optim_flat invariants"),
    Sub("batch_membership", oracle_membership, gen=gen_membership, n={"quick": 160, "thorough": 3000}, shrink_calls=40,
        what="batches drawn per iteration: disjoint, right shape, every observation drawn over 48 keys, members vary when batch size does not divide n"),
    Sub("fresh_minibatches", oracle_fresh, gen=gen_fresh, n={"quick": 4, "thorough": 40}, shrink={"quick": False, "thorough": False}, min_per_shard=1,
        what="every observation influences the fit when batch size does not divide n"),
]
