"""C08 — Recorded chains hold exactly the per-iteration states, thinned as configured.

Generated schedules (vlib.enginelab) with deterministic, order-sensitive ProbeKernels: the stored position chain, transition
infos, kernel states and posterior accessors are compared value by value with a pure-Python reference; every admissible
JIT chunk size must store bit-identical results; tracked keys must equal (kernel keys + included) - excluded, both through
the Engine constructor and through EngineBuilder.positions_included / positions_excluded.
"""
from __future__ import annotations

import math

import numpy as np

from vlib import enginelab as el
from vlib.lz import gs, jax, jnp, tree_equal_bits
from vlib.runner import Sub, require

from liesel.goose.epoch import EpochConfig, EpochType

PROPERTY = "C08"
RULE = ("cases = engine specs (valid schedule with thinning 1..duration per warm-up epoch and divisors for posterior epochs, chunk = any "
        "divisor of the gcd of durations, chains 1-3, 1-3 order-sensitive probe kernels over keys of shapes (), (3,), (2,2), tracked-key "
        "selection via included/excluded, kernel-state storage on/off, Engine constructor or EngineBuilder); non-trivial = some epoch with "
        "thinning > 1 and chunk not a multiple of that thinning, and >= 2 kernels; distinct = SHA-1 of the spec")
ASSUMPTIONS = [
    "probe-kernel arithmetic is integer-valued float32 (exact), so stored values are compared bitwise",
    "chunk independence is asserted for the key-ignoring probe kernel on positions, per-transition fields and life-cycle counters "
    "(the PRNG keys handed out legitimately depend on the chunking)",
    "an empty tracked-key set is outside the input domain",
]
SHARDS = {"quick": 16, "thorough": 16}
TECHNIQUE = ("Hypothesis-generated schedules / thinning / chunk sizes / key selections; value-exact comparison of stored chains with a "
             "pure-Python reference; metamorphic chunk-size invariance; builder vs constructor differential")
LEVEL_TEXT = ("Model-based generated-input testing: every stored sample, transition info and kernel state of the real Engine is compared "
              "with the reference trajectory of the deterministic probe kernels (index 0 = initial values, within-epoch iterations k, 2k, ... "
              "kept, state after all kernels of the iteration), the posterior accessors with the posterior slices, and the whole result "
              "must be bit-identical for every admissible chunk size. Exploration over generated configurations, not a proof.")
LEVEL_NOTE = "Trusts the reference trajectory in vlib/enginelab.py and numpy integer arithmetic."


def gen():
    from hypothesis import strategies as st

    base = el.schedule_strategy(max_dur=12, max_epochs=4, chains=(1, 3), want_script=False)

    def longer(t):
        sp, builder, nchunks, thin_pick = t
        if nchunks:
            # the last posterior epoch is stored in many JIT chunks (33, 34, 65, ...): chunk lists of that length are concatenated at the end
            last = sp["epochs"][-1]
            last[1] = sp["chunk"] * nchunks
            divs = [d for d in range(1, last[1] + 1) if last[1] % d == 0 and d <= 6]
            last[2] = divs[thin_pick % len(divs)]
        return dict(sp, builder=builder)

    return st.tuples(base, st.booleans(), st.sampled_from([0, 0, 0, 33, 34, 65]), st.integers(0, 5)).map(longer)


def build_with_builder(spec):
    """Same run through EngineBuilder (replicated initial state, builder-chosen chunk)."""
    # another builder configured earlier in the same process (in place, as the docstring suggests) must not influence this one
    b0 = gs.EngineBuilder(seed=0, num_chains=1)
    b0.positions_excluded.append(spec["kernels"][0]["keys"][0])
    b0.positions_included.append("cid")
    b = gs.EngineBuilder(seed=spec["seed"], num_chains=spec["chains"])
    b.show_progress = False
    b.store_kernel_states = spec["store_ks"]
    b.set_epochs([EpochConfig(EpochType(t), d, k, None) for t, d, k in spec["epochs"]])
    model = el.make_model()
    b.set_model(model)
    st0 = jax.tree_util.tree_map(lambda x: x[0], el.initial_states(spec))
    b.set_initial_values(st0)
    log = []
    for k in el.make_kernels(spec, log):
        b.add_kernel(k)
    b.positions_included.extend(spec["included"])          # (in place on the builder's own default lists)
    b.positions_excluded.extend(spec["excluded"])
    eng = b.build()
    eng.sample_all_epochs()
    return eng


def compare_results(spec, eng, ref, tag=""):
    res = eng.get_results()
    tracked = el.tracked_keys(spec)
    pos = res.get_samples()
    det = f"epochs={spec['epochs']} chunk={spec['chunk']} chains={spec['chains']} tracked={tracked}"
    require(sorted(pos.keys()) == sorted(tracked), tag + "tracked-keys", f"stored {sorted(pos.keys())} expected {sorted(tracked)}; {det}")
    for k in tracked:
        got = np.asarray(pos[k])
        for c in range(spec["chains"]):
            exp = ref[c]["stored"][k]
            require(got[c].shape == exp.shape, tag + "positions:length", f"key {k} chain {c}: stored {got[c].shape} expected {exp.shape}; {det}")
            if not np.array_equal(got[c].astype(np.int64), exp):
                idx = int(np.argmax(np.any((got[c].astype(np.int64) != exp).reshape(exp.shape[0], -1), axis=1)))
                require(False, tag + ("positions:initial-value" if idx == 0 else "positions:value"),
                        f"key {k} chain {c} stored index {idx}: got {got[c][idx].tolist()} expected {exp[idx].tolist()}; {det}")
    # transition infos: one per transition, aligned in time
    total = sum(e[1] for e in spec["epochs"][1:])
    tis = res.transition_infos.combine_all().unwrap()
    for ki in range(len(spec["kernels"])):
        ti = tis[f"kernel_{ki:02d}"]
        t = np.asarray(ti.time)
        require(t.shape == (spec["chains"], total) and bool(np.all(t == np.arange(1, total + 1)[None, :])), tag + "infos:alignment",
                f"times {t.tolist()[:1]} expected 1..{total}; {det}")
        for c in range(spec["chains"]):
            for f in ("pre", "post"):
                e = np.array([x[f] for x in ref[c]["infos"][ki]])
                require(np.array_equal(np.asarray(getattr(ti, f))[c].astype(np.int64), e), tag + f"infos:{f}-state-digest", det)
    # kernel states
    if spec["store_ks"]:
        require(res.kernel_states.is_some(), tag + "kernel-states:missing", det)
        ksc = res.kernel_states.unwrap().combine_all().unwrap()
        for ki in range(len(spec["kernels"])):
            ks = el.unpack_ks(ksc[ki])
            nt = ks["n_trans"]
            require(nt.shape == (spec["chains"], total + 1) and bool(np.all(nt == np.arange(0, total + 1)[None, :])),
                    tag + "kernel-states:per-transition", f"n_trans chain {nt.tolist()[:1]} expected 0..{total}; {det}")
    else:
        require(res.kernel_states.is_none(), tag + "kernel-states:unrequested", det)
    # posterior accessors
    post_types = [e[0] == 4 for e in spec["epochs"]]
    if any(post_types):
        pp = res.get_posterior_samples()
        for k in tracked:
            for c in range(spec["chains"]):
                mask = np.array([post_types[e] for e in ref[c]["stored_epoch"]])
                exp = ref[c]["stored"][k][mask]
                got = np.asarray(pp[k])[c]
                require(got.shape == exp.shape and np.array_equal(got.astype(np.int64), exp), tag + "posterior-samples", f"key {k} chain {c}; {det}")
        pti = res.get_posterior_transition_infos()
        for ki in range(len(spec["kernels"])):
            e = np.array([x["time"] for x in ref[0]["infos"][ki] if x["etype"] == 4])
            g = np.asarray(pti[f"kernel_{ki:02d}"].time)
            require(g.shape[1:] == e.shape and bool(np.all(g == e[None, :])), tag + "posterior-infos", f"{g.tolist()[:1]} vs {e.tolist()}; {det}")
    return res


def chunk_free(res, nk):
    """The chunk-independent part of a result (positions, per-transition fields, life-cycle counters)."""
    tis = res.transition_infos.combine_all().unwrap()
    out = {"pos": res.get_samples()}
    for ki in range(nk):
        ti = tis[f"kernel_{ki:02d}"]
        out[f"k{ki}"] = {f: getattr(ti, f) for f in ("error_code", "time", "time_in_epoch", "etype", "nth", "duration", "thinning", "adaptive", "pre", "post")}
        out[f"k{ki}"]["v"] = ti.ks["v"]
    return out


def oracle(spec):
    builder = spec.get("builder", False)
    spec = dict(spec)
    if builder:
        spec["chunk"] = math.gcd(*[e[1] for e in spec["epochs"][1:]])
        ref_spec = dict(spec)
        ref_spec["replicated"] = True
    durs = [e[1] for e in spec["epochs"][1:]]
    if builder:
        # replicated initial state: reference uses chain 0's state for every chain
        import copy

        rs = copy.deepcopy(spec)
        ref_all = el.reference(dict(rs, chains=1))
        ref = [ref_all[0] for _ in range(spec["chains"])]
        eng = build_with_builder(spec)
        require(int(eng._jitted_sample_duration) >= 1 and all(d % int(eng._jitted_sample_duration) == 0 for d in durs),
                "builder:chunk", f"{eng._jitted_sample_duration} vs {durs}")
        res = compare_results(spec, eng, ref, "builder:")
    else:
        ref = el.reference(spec)
        eng, _ = el.run_all(spec)
        res = compare_results(spec, eng, ref)
        base = chunk_free(res, len(spec["kernels"]))
        for ch in el.divisors(math.gcd(*durs)):
            if ch == spec["chunk"]:
                continue
            eng2, _ = el.run_all(spec, chunk=ch)
            other = chunk_free(eng2.get_results(), len(spec["kernels"]))
            require(tree_equal_bits(base, other), "chunk-dependence", f"chunk {spec['chunk']} vs {ch}: stored results differ; epochs={spec['epochs']}")
    thin = [(d, k) for _, d, k in spec["epochs"][1:] if k > 1]
    nt = any(spec["chunk"] % k != 0 for _, k in thin) and len(spec["kernels"]) >= 2
    shapes = {tuple(spec["shapes"][k]) for k in el.tracked_keys(spec)}
    cls = ["thin>1" if thin else "thin=1", "builder" if builder else "ctor", f"kernels{len(spec['kernels'])}", f"chains{spec['chains']}",
           "store_ks" if spec["store_ks"] else "no_ks", "incl" if spec["included"] else "noincl", "excl" if spec["excluded"] else "noexcl",
           "shape(2,2)" if (2, 2) in shapes else "noshape22", "chunk!|thin" if any(spec["chunk"] % k != 0 for _, k in thin) else "chunk|thin"]
    return {"nt": bool(nt), "cls": cls}


# ------------------------------------------------------------------------------ Liesel model: variable names and node names as position keys
def gen_liesel():
    from hypothesis import strategies as st

    keys = ["c", "e", "e_value", "d_value", "sum_node", "a_value"]
    return st.fixed_dictionaries({
        "incl": st.lists(st.sampled_from(keys), unique=True, max_size=4), "excl": st.lists(st.sampled_from(keys + ["a", "b"]), unique=True, max_size=3),
        "post": st.integers(2, 6), "warm": st.integers(0, 4), "thin": st.sampled_from([1, 1, 2]), "chains": st.integers(1, 3), "seed": st.integers(0, 1000),
        "init": st.lists(st.integers(0, 20), min_size=4, max_size=4), "a_mult": st.integers(1, 4)})


def oracle_liesel(c):
    from vlib.lz import lsl

    f32 = np.float32
    a = lsl.Var(f32(c["init"][0]), name="a")
    b = lsl.Var(np.array([c["init"][1], c["init"][1] + 1], dtype=f32), name="b")
    cc = lsl.Var(f32(c["init"][2]), name="c")
    d = lsl.Var(f32(c["init"][3]), name="d")
    e = lsl.Var(lsl.Calc(lambda x, y: x + jnp.sum(y), a, b), name="e")                 # weak variable: e / e_value name the same quantity
    sum_node = lsl.Calc(lambda x, y, z: x + y + z, e, cc, d, _name="sum_node")        # a plain node
    model = lsl.GraphBuilder().add(sum_node).build_model()
    iface = gs.LieselInterface(model)
    post = c["post"] * c["thin"]
    eps = [[0, 1, 1]] + ([[3, c["warm"], 1]] if c["warm"] else []) + [[4, post, c["thin"]]]
    bld = gs.EngineBuilder(seed=c["seed"], num_chains=c["chains"])
    bld.show_progress = False
    bld.set_epochs([EpochConfig(EpochType(t), dd, k, None) for t, dd, k in eps])
    bld.set_model(iface)
    bld.set_initial_values(model.state)
    m = c["a_mult"]
    bld.add_kernel(gs.GibbsKernel(["a"], lambda key, st: {"a": jnp.mod(m * iface.extract_position(["a"], st)["a"] + 1.0, 97.0)}))
    bld.add_kernel(gs.GibbsKernel(["b"], lambda key, st: {"b": jnp.mod(iface.extract_position(["b"], st)["b"] + iface.extract_position(["a"], st)["a"], 97.0)}))
    bld.positions_included = list(c["incl"])
    bld.positions_excluded = list(c["excl"])
    tracked = [k for k in ["a", "b"] + list(c["incl"]) if k not in c["excl"]]
    det = f"{c} tracked={tracked}"
    if not tracked:
        return {"nt": False, "cls": ["empty-selection"]}       # outside the input domain
    eng = bld.build()
    eng.sample_all_epochs()
    res = eng.get_results()
    pos = res.get_samples()
    require(sorted(pos.keys()) == sorted(set(tracked)), "liesel:tracked-keys", f"stored {sorted(pos.keys())}; {det}")
    # reference trajectory
    av, bv = float(c["init"][0]), np.array([c["init"][1], c["init"][1] + 1], dtype=np.float64)
    cv, dv = float(c["init"][2]), float(c["init"][3])
    traj = []

    def snap():
        ev = av + bv.sum()
        return {"a": av, "a_value": av, "b": bv.copy(), "c": cv, "d_value": dv, "e": ev, "e_value": ev, "sum_node": ev + cv + dv}

    traj.append(snap())
    kept = [0]
    t = 0
    for typ, dur, thin in eps[1:]:
        for j in range(dur):
            av = (m * av + 1.0) % 97.0
            bv = (bv + av) % 97.0
            t += 1
            traj.append(snap())
            if (j + 1) % thin == 0:
                kept.append(t)
    for k in tracked:
        got = np.asarray(pos[k], dtype=np.float64)
        exp = np.stack([np.asarray(traj[i][k], dtype=np.float64) for i in kept])
        for ch in range(c["chains"]):
            require(got[ch].shape == exp.shape and np.array_equal(got[ch], exp), "liesel:stored-value",
                    lambda: f"key {k} chain {ch}: {got[ch].tolist()} expected {exp.tolist()}; {det}")
    derived = [k for k in tracked if k in ("e", "e_value", "sum_node")]
    return {"nt": bool(derived and c["excl"]), "cls": ["derived" if derived else "noderived", "excl" if c["excl"] else "noexcl", "thin" if c["thin"] > 1 else "nothin"]}


SUBS = [
    Sub("chains", oracle, gen=gen, n={"quick": 96, "thorough": 2400}, shrink_calls=40,
        what="stored positions / infos / kernel states / posterior accessors vs reference; all chunk sizes; builder include/exclude"),
    Sub("liesel_keys", oracle_liesel, gen=gen_liesel, n={"quick": 24, "thorough": 600}, shrink_calls=20,
        what="Liesel model behind the builder: variable names, value-node names and plain node names as included / excluded position keys"),
]
