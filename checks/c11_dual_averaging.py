"""C11 — Step-size adaptation follows dual averaging, frozen outside adaptation.

Sub-oracles
  recurrence   da_init / da_step / da_finalize driven with generated acceptance sequences and constants vs. a float64
               re-implementation in Stan's form (running mean of the error, not liesel's error-sum form); monotonicity:
               raising one acceptance probability never lowers the next step size
  engine       every step-size adapting kernel (RW, MH tune on/off, IWLS, HMC, NUTS) with generated DA constants on generated
               schedules, kernel states stored: the reference recurrence is driven by the *recorded* acceptance probabilities;
               adaptation epochs must follow it (restarted from the current step size at each epoch start, averaged step
               installed at the end), burn-in / posterior epochs must keep every tuning field bit-constant
"""
from __future__ import annotations

import math

import numpy as np

from vlib.lz import gs, jax, jnp
from vlib.runner import Sub, require

from liesel.goose import da
from liesel.goose.epoch import EpochConfig, EpochType
from liesel.goose.kernel_sequence import KernelSequence
from liesel.goose.rw import RWKernelState

PROPERTY = "C11"
RULE = ("recurrence: acceptance sequences (length 1-300, values in [0,1] incl. all-0 / all-1 / crossing the target), initial step 1e-4..10, "
        "target, gamma, kappa, t0 drawn by Hypothesis; engine: kernel kind x DA constants x schedule (adaptation, burn-in, posterior epochs, "
        "chunk size) x seed. Non-trivial = sequence crossing the target acceptance (recurrence); schedule with two adaptation epochs and a "
        "burn-in or posterior epoch between or after them (engine). Distinct = SHA-1 of the case")
ASSUMPTIONS = [
    "Stan-form reference in float64; liesel computes in float32: tolerance on log step sizes = 2e-5 + 1e-6*(|mu| + |drift|) + the accumulated rounding bound of a float32 running sum (1.2e-7 * sum of |partial sums| * sqrt(t)/(gamma*(t+t0)))",
    "HMC/NUTS: after a slow-adaptation epoch the documented trace-ratio rescale of the step size is part of the expected value",
    "engine sub-oracle validates the recurrence against the acceptance probabilities the kernels themselves recorded",
]
SHARDS = {"quick": 16, "thorough": 16}
TECHNIQUE = ("Hypothesis-generated acceptance sequences / constants against an independent Stan-form float64 recurrence; metamorphic "
             "monotonicity; trace validation of stored kernel states for all five adapting kernels on generated schedules")
LEVEL_TEXT = ("Generated-input testing with a reference implementation written in a different algebraic form (Stan's running-mean form) and "
              "trace validation: stored per-iteration kernel states of RW, MH, IWLS, HMC and NUTS are replayed against the reference driven "
              "by the recorded acceptance probabilities, with kernel-specific DA constants, restart at every epoch start, averaged step at "
              "epoch end and bit-constant tuning state in burn-in/posterior epochs. Exploration, not proof.")
LEVEL_NOTE = "Trusts the float64 Stan-form recurrence (10 lines) and numpy; float32 rounding is bounded by a stated tolerance."


# ------------------------------------------------------------------------------ reference (Stan form, float64)
def stan_reference(eps0, alphas, delta, gamma, kappa, t0):
    """Returns mu and per step (log eps_t, log avg eps_t, float32 error bound of liesel's error-sum form)."""
    mu = math.log(10.0 * eps0)
    sbar, logbar = 0.0, math.log(eps0)
    out = []
    acc_abs, tolmax = 0.0, 0.0
    for t, a in enumerate(alphas, start=1):
        sbar = (1.0 - 1.0 / (t + t0)) * sbar + (delta - a) / (t + t0)
        logeps = mu - math.sqrt(t) / gamma * sbar
        eta = t ** (-kappa)
        logbar = eta * logeps + (1.0 - eta) * logbar
        # float32 running sum: each addition rounds relative to the partial sum -> accumulated bound
        acc_abs += abs(sbar) * (t + t0) + abs(delta - a)
        mult = math.sqrt(t) / (gamma * (t + t0))
        tol = 2e-5 + 1e-6 * (abs(mu) + mult * abs(sbar) * (t + t0)) + mult * 1.2e-7 * acc_abs
        tolmax = max(tolmax, tol)
        out.append((logeps, logbar, tolmax))
    return mu, out


_scan_cache = {}


def run_da(eps0, alphas, delta, gamma, kappa, t0):
    key = (len(alphas),)
    if key not in _scan_cache:
        def f(eps0, alphas, delta, gamma, kappa, t0):
            ks = RWKernelState(step_size=eps0)
            da.da_init(ks)

            def body(ks, xs):
                t, a = xs
                da.da_step(ks, a, t, delta, gamma, kappa, t0)
                return ks, (ks.step_size, ks.log_avg_step_size, ks.error_sum)

            ks, outs = jax.lax.scan(body, ks, (jnp.arange(alphas.shape[0]), alphas))
            mu = ks.mu
            da.da_finalize(ks)
            return outs, ks.step_size, mu

        _scan_cache[key] = jax.jit(f)
    outs, final, mu = _scan_cache[key](jnp.float32(eps0), jnp.asarray(np.asarray(alphas, dtype=np.float32)), jnp.float32(delta),
                                       jnp.float32(gamma), jnp.float32(kappa), jnp.float32(t0))
    return [np.asarray(o) for o in outs], float(final), float(mu)


def gen_rec():
    from hypothesis import strategies as st
    from vlib.gens import f32

    @st.composite
    def g(draw):
        n = draw(st.one_of(st.integers(1, 12), st.integers(1, 300)))
        kind = draw(st.sampled_from(["random", "random", "zeros", "ones", "crossing", "near-target"]))
        delta = draw(st.sampled_from([0.234, 0.5, 0.65, 0.8, 0.9]))
        if kind == "random":
            al = draw(st.lists(f32(0, 1), min_size=n, max_size=n))
        elif kind == "zeros":
            al = [0.0] * n
        elif kind == "ones":
            al = [1.0] * n
        elif kind == "crossing":
            k = draw(st.integers(0, n))
            al = [1.0] * k + [0.0] * (n - k) if draw(st.booleans()) else [0.0] * k + [1.0] * (n - k)
        else:
            al = [float(np.float32(min(1, max(0, delta + d)))) for d in draw(st.lists(f32(-0.1, 0.1), min_size=n, max_size=n))]
        return {"alphas": [float(np.float32(a)) for a in al], "eps0": float(np.float32(10 ** draw(f32(-4, 1)))), "delta": delta,
                "gamma": draw(st.sampled_from([0.05, 0.05, 0.1, 0.5, 1.0])), "kappa": draw(st.sampled_from([0.75, 0.75, 0.6, 0.9, 1.0])),
                "t0": draw(st.sampled_from([10, 10, 1, 5, 50])), "bump": draw(st.integers(0, max(0, n - 1)))}

    return g()


def check_against_reference(steps, logavg, mu_impl, eps0, alphas, delta, gamma, kappa, t0, tag, det):
    mu, ref = stan_reference(eps0, alphas, delta, gamma, kappa, t0)
    require(abs(mu_impl - mu) <= 2e-5 + 1e-6 * abs(mu), tag + "mu-not-log-10-eps0", lambda: f"mu={mu_impl} expected {mu}; {det}")
    for t, (le, lb, tol) in enumerate(ref):
        got = math.log(max(float(steps[t]), 1e-300)) if steps[t] > 0 else -math.inf
        if le < -85 or le > 85:
            continue  # float32 exp under/overflow region: not compared
        require(abs(got - le) <= tol, tag + "step-size-off-recurrence", lambda: f"t={t + 1}: log step {got} expected {le} (tol {tol:.2e}); {det}")
        require(abs(float(logavg[t]) - lb) <= tol, tag + "averaged-step-off-recurrence", lambda: f"t={t + 1}: log avg {float(logavg[t])} expected {lb} (tol {tol:.2e}); {det}")
    return ref


def oracle_rec(c):
    al = c["alphas"]
    det = f"eps0={c['eps0']} delta={c['delta']} gamma={c['gamma']} kappa={c['kappa']} t0={c['t0']} n={len(al)} alphas[:6]={al[:6]}"
    (steps, logavg, es), final, mu = run_da(c["eps0"], al, c["delta"], c["gamma"], c["kappa"], c["t0"])
    ref = check_against_reference(steps, logavg, mu, c["eps0"], al, c["delta"], c["gamma"], c["kappa"], c["t0"], "", det)
    if abs(ref[-1][1]) < 85:
        require(abs(math.log(final) - float(logavg[-1])) <= 1e-5, "finalize-not-exp-of-averaged-log-step", f"{final} vs exp({float(logavg[-1])}); {det}")
    # monotonicity: raise alpha at position `bump`; the step size right after that update must not get smaller
    b = min(c["bump"], len(al) - 1)
    if al[b] < 1.0:
        al2 = list(al)
        al2[b] = float(np.float32(min(1.0, al[b] + 0.25)))
        (steps2, _, _), _, _ = run_da(c["eps0"], al2, c["delta"], c["gamma"], c["kappa"], c["t0"])
        require(steps2[b] >= steps[b], "higher-acceptance-gave-smaller-step", lambda: f"t={b + 1}: {steps[b]} -> {steps2[b]} after raising alpha {al[b]} -> {al2[b]}; {det}")
    crossing = min(al) < c["delta"] < max(al)
    return {"nt": bool(crossing and len(al) >= 3), "cls": [f"n<={10 ** len(str(len(al)))}", "crossing" if crossing else "one-sided"]}


# ------------------------------------------------------------------------------ engine traces
KINDS = ["rw", "mh_on", "mh_off", "iwls", "hmc", "nuts"]


def _target():
    return gs.DictInterface(lambda s: -0.5 * jnp.sum((s["x"] - jnp.array([0.5, -1.0])) ** 2 / jnp.array([1.0, 4.0])) - 0.5 * s["y"] ** 2)


def _mh_proposal(key, state, step):
    z = jax.random.normal(key, (2,))
    return gs.MHProposal({"x": state["x"] + step * z}, 0.0)


def make_kernel(c):
    if c.get("late_attrs"):
        # the constants are set on the kernel object after construction (public attributes da_target_accept, da_gamma, da_kappa, da_t0)
        ker = make_kernel(dict(c, late_attrs=False, delta=0.8 if c["kind"] in ("hmc", "nuts", "iwls") else 0.234, gamma=0.05, kappa=0.75, t0=10))
        ker.da_target_accept, ker.da_gamma, ker.da_kappa, ker.da_t0 = c["delta"], c["gamma"], c["kappa"], c["t0"]
        return ker
    kw = dict(da_target_accept=c["delta"], da_gamma=c["gamma"], da_kappa=c["kappa"], da_t0=c["t0"])
    k = c["kind"]
    if k == "rw":
        return gs.RWKernel(["x"], initial_step_size=c["eps0"], **kw)
    if k in ("mh_on", "mh_off"):
        return gs.MHKernel(["x"], _mh_proposal, initial_step_size=c["eps0"], da_tune_step_size=(k == "mh_on"), **kw)
    if k == "iwls":
        return gs.IWLSKernel(["x"], initial_step_size=c["eps0"], **kw)
    if k == "hmc":
        return gs.HMCKernel(["x"], initial_step_size=c["eps0"], num_integration_steps=3, mm_diag=c["diag"], **kw)
    return gs.NUTSKernel(["x"], initial_step_size=c["eps0"], max_treedepth=3, mm_diag=c["diag"], **kw)


def gen_engine():
    from hypothesis import strategies as st

    @st.composite
    def g(draw):
        ne = draw(st.integers(2, 5))
        g_ = draw(st.sampled_from([1, 2, 3]))
        types = [draw(st.sampled_from([1, 2, 1, 2, 3])) for _ in range(ne - 1)] + [4]
        if draw(st.booleans()):
            types.append(4)
        epochs = [[0, 1, 1]] + [[t, g_ * draw(st.integers(1, 4)) if t != 2 else g_ * draw(st.integers(2, 5)), 1] for t in types]
        if draw(st.integers(0, 2)) == 0:
            # a one-iteration fast-adaptation epoch (one-sample history; a one-sample SLOW epoch has no defined variance and is not generated)
            first_post = next(i for i, e in enumerate(epochs) if e[0] == 4)
            epochs.insert(draw(st.integers(1, first_post)), [1, 1, 1])           # (warm-up epochs may not follow a posterior epoch)
        durs = [e[1] for e in epochs[1:]]
        chunk = draw(st.sampled_from([d for d in range(1, math.gcd(*durs) + 1) if math.gcd(*durs) % d == 0]))
        return {"kind": draw(st.sampled_from(KINDS)), "epochs": epochs, "chunk": chunk, "chains": 2, "seed": draw(st.integers(0, 2**20)),
                "eps0": draw(st.sampled_from([0.05, 0.3, 1.0, 2.5])), "delta": draw(st.sampled_from([0.234, 0.6, 0.8])),
                "gamma": draw(st.sampled_from([0.05, 0.1, 0.5])), "kappa": draw(st.sampled_from([0.75, 0.6, 0.9])),
                "t0": draw(st.sampled_from([10, 3, 25])), "diag": draw(st.booleans()), "late_attrs": draw(st.integers(0, 2)) == 0}

    return g()


def oracle_engine(c):
    ker = make_kernel(c)
    ker.identifier = "k"
    model = _target()
    ker.set_model(model)
    C = c["chains"]
    st0 = {"x": jnp.tile(jnp.array([0.3, 0.1], dtype=jnp.float32), (C, 1)) + jnp.arange(C, dtype=jnp.float32)[:, None] * 0.2,
           "y": jnp.zeros((C,), dtype=jnp.float32)}
    eng = gs.Engine(seeds=jax.random.split(jax.random.PRNGKey(c["seed"]), C), model_states=st0, kernel_sequence=KernelSequence([ker]),
                    epoch_configs=[EpochConfig(EpochType(t), d, k, None) for t, d, k in c["epochs"]], jitted_sample_duration=c["chunk"],
                    model=model, position_keys=["x"], store_kernel_states=True, show_progress=False)
    eng.sample_all_epochs()
    res = eng.get_results()
    ks = res.kernel_states.unwrap().combine_all().unwrap()[0]
    ti = res.transition_infos.combine_all().unwrap()["k"]
    acc = np.asarray(ti.acceptance_prob)                       # (C, T)
    fields = {f: np.asarray(getattr(ks, f)) for f in ("step_size", "error_sum", "log_avg_step_size", "mu")}   # (C, T+1) incl. initial state
    imm = np.asarray(ks.inverse_mass_matrix) if hasattr(ks, "inverse_mass_matrix") else None
    det0 = f"{c}"
    adapting = c["kind"] != "mh_off"
    for ch in range(C):
        eps_start = c["eps0"]
        pos = 1                                                # index into stored kernel states (0 = initial)
        require(abs(float(fields["step_size"][ch, 0]) - c["eps0"]) <= 1e-6 * c["eps0"], "initial-step-size-not-honoured", det0)
        for ei, (typ, dur, _) in enumerate(c["epochs"]):
            if ei == 0:
                continue
            sl = slice(pos, pos + dur)
            det = f"chain {ch} epoch #{ei} type {typ} dur {dur}; {det0}"
            steps, logavg, mus = fields["step_size"][ch, sl], fields["log_avg_step_size"][ch, sl], fields["mu"][ch, sl]
            # epoch start: the DA state is re-initialised from the current step size
            tol0 = 2e-5 + 1e-6 * abs(math.log(10 * eps_start))
            require(bool(np.all(np.abs(mus - math.log(10 * eps_start)) <= tol0)), "epoch-start:not-restarted-from-current-step-size",
                    lambda: f"mu={mus[:3].tolist()} expected log(10*{eps_start})={math.log(10 * eps_start)}; {det}")
            if typ in (1, 2) and adapting:
                al = acc[ch, pos - 1: pos - 1 + dur].astype(np.float64).tolist()
                check_against_reference(steps, logavg, float(mus[0]), eps_start, al, c["delta"], c["gamma"], c["kappa"], c["t0"], "adaptation:", det)
                eps_end = math.exp(float(logavg[-1]))
            else:
                for f, arr in fields.items():
                    a = arr[ch, sl]
                    require(bool(np.all(a == a[0])), "frozen-epoch:tuning-state-changed:" + f, lambda: f"{f}={a.tolist()}; {det}")
                require(bool(np.all(np.abs(steps - eps_start) <= 2e-6 * eps_start)), "frozen-epoch:step-size-not-the-adapted-one",
                        lambda: f"step={steps[:3].tolist()} expected {eps_start}; {det}")
                eps_end = float(steps[-1])
            if imm is not None:
                a = imm[ch, sl]
                require(bool(np.all(a == a[0])), "mass-matrix-changed-within-epoch", det)
            # step size carried into the next epoch (HMC/NUTS rescale after a slow epoch)
            if typ == 2 and imm is not None and pos + dur < imm.shape[1]:
                old, new = imm[ch, pos + dur - 1], imm[ch, pos + dur]
                tr = (np.sum if old.ndim == 1 else np.trace)
                eps_end = eps_end * math.sqrt(float(tr(old)) / float(tr(new)))
            eps_start = eps_end
            pos += dur
    types = [e[0] for e in c["epochs"]]
    ad = [i for i, t in enumerate(types) if t in (1, 2)]
    nt = len(ad) >= 2 and any(t in (3, 4) for t in types[ad[0]:]) and adapting
    return {"nt": bool(nt), "cls": [c["kind"], f"adapt{len(ad)}", "burnin" if 3 in types else "noburnin", "chunk1" if c["chunk"] == 1 else "chunk>1"]}


SUBS = [
    Sub("recurrence", oracle_rec, gen=gen_rec, n={"quick": 2400, "thorough": 100000}, what="da_* vs Stan-form float64 reference; monotonicity"),
    Sub("engine", oracle_engine, gen=gen_engine, n={"quick": 32, "thorough": 600}, shrink_calls=16,
        what="stored kernel states of RW/MH/IWLS/HMC/NUTS vs reference driven by recorded acceptance probabilities"),
]
