"""C03 — State-passing model interface is pure and equivalent to direct assignment.

Sub-oracles
  liesel    generated Liesel models (vlib.modelgen) behind ONE LieselInterface and op-lists of interface calls: update_state with
            positions keyed by variable names and by value-node names, executed eagerly / under jit / vmapped over positions / vmapped
            over positions and stacked states; extract_position; log_prob; repeats of earlier calls after other calls.
            Reference = a private deep copy of the user's model driven by direct assignment + update().  Non-mutation of the input
            state and of the user's model (also when the user's model has pending, un-updated assignments when the interface is built).
  records   DictInterface / DataclassInterface / NamedTupleInterface: put/get, untouched fields, non-mutation, idempotence and
            later-wins composition on generated records.
"""
from __future__ import annotations

import copy
import dataclasses
from typing import NamedTuple

import numpy as np

from vlib import modelgen as mg
from vlib.lz import gs, jax, jnp, lsl, tree_equal_bits
from vlib.runner import Sub, Violation, require

PROPERTY = "C03"
RULE = ("liesel: (model spec of 2-5 variables, op-list of 3-10 interface calls with modes eager / jit / vmap-positions / vmap-positions-and-"
        "states, key style variable-name or value-node-name, position subsets, repeats); records: generated field values and positions. "
        "Non-trivial = >= 3 update calls with different positions on one interface incl. a jit or vmap call before an eager one and a repeat; "
        "distinct = SHA-1 of the case")
ASSUMPTIONS = [
    "model states handed to update_state are up to date (the documented precondition); they are taken from a pool seeded with the updated "
    "model state and grown with every returned state",
    "eager results must equal direct assignment exactly (same floating-point program); jit / vmap results within rtol 2e-6 (XLA fusion)",
    "a position key that names both a variable and a different node is resolved node-first by both update and extract (put/get law only)",
]
SHARDS = {"quick": 16, "thorough": 16}
TECHNIQUE = ("Hypothesis-generated models and interface call histories; reference = deep copy of the user's model under direct assignment; "
             "differential across eager / jit / vmap execution; aliasing and mutation checks on input states and the user's model")
LEVEL_TEXT = ("Model-based stateful testing of the Goose model interface: every returned state is compared node by node with the state the "
              "model reaches under direct assignment, across execution modes and after arbitrary earlier calls (history independence), "
              "with before/after snapshots of the input state and of the user's model, plus the put/get laws for the three record "
              "interfaces. Exploration, not proof.")
LEVEL_NOTE = "Trusts a deep copy of the user's model as the direct-assignment reference (the property's own definition)."


def gen():
    from hypothesis import strategies as st

    @st.composite
    def g(draw):
        spec = draw(mg.spec_strategy(min_vars=2, max_vars=5, allow_discrete=False))
        nv = len(spec["vars"])
        zs = st.lists(st.floats(-2, 2, width=32), min_size=5, max_size=5)
        upd = st.tuples(st.just("update"), st.sampled_from(["eager", "eager", "jit", "vmap_pos", "vmap_both"]), st.integers(0, 20),
                        st.lists(zs, min_size=nv, max_size=nv), st.sampled_from(["var", "node"]), st.lists(st.booleans(), min_size=nv, max_size=nv))
        msk = st.lists(st.booleans(), min_size=nv, max_size=nv)
        pair = st.tuples(st.just("pair"), st.integers(0, 20), st.lists(zs, min_size=nv, max_size=nv), msk, st.lists(zs, min_size=nv, max_size=nv), msk)
        op = st.one_of(upd, upd, upd, upd, upd, pair, st.tuples(st.just("repeat"), st.integers(0, 20)), st.tuples(st.just("repeat"), st.integers(0, 20)), st.tuples(st.just("extract"), st.integers(0, 20)),
                       st.tuples(st.just("logprob"), st.integers(0, 20))).map(list)
        return {"spec": spec, "ops": draw(st.lists(op, min_size=4, max_size=12)), "pending": draw(st.booleans()), "clash": draw(st.booleans()),
                "dep_bij": draw(st.booleans()), "int_var": draw(st.booleans()), "user_lp": draw(st.sampled_from([0, 0, 0, 1, 2, 3])), "bool_var": draw(st.booleans()), "extra_node": draw(st.booleans()), "alias": draw(st.integers(0, 3)) == 0, "hi": [draw(st.sampled_from([1.5, 2.5, 3.0])) for _ in range(4)]}

    return g()


class ExtraNode(lsl.Node):
    """a user-defined node that keeps extra information in its state (documented: subclasses can add extra information to the state)"""

    def __init__(self, inp, _name=""):
        super().__init__(inp, _name=_name)
        self._extra = None

    def update(self):
        v = jnp.sum(jnp.asarray(self.inputs[0].value, dtype=jnp.float32))
        self._value = 2.0 * v
        self._extra = (v + 1.0, jnp.sqrt(1.0 + v * v))
        self._outdated = False
        return self

    @property
    def state(self):
        from liesel.model.nodes import NodeState

        return NodeState(self.value, self.outdated, self._extra)

    @state.setter
    def state(self, state):
        self._value, self._outdated, self._extra = state.value, state.outdated, state.extra


def state_values(state):
    return {k: (None if v.value is None else np.asarray(v.value).copy(), bool(np.asarray(v.outdated).all()) if not isinstance(v.outdated, bool) else v.outdated)
            for k, v in state.items()}


def compare_states(got, exp, exact, tag, det):
    require(set(got) == set(exp), tag + "node-set-differs", lambda: f"{sorted(set(got) ^ set(exp))}; {det()}")
    for k in exp:
        gv, ev = got[k].value, exp[k].value
        require(not bool(np.any(np.asarray(got[k].outdated))), tag + "returned-state-has-outdated-node", lambda: f"{k}; {det()}")
        if ev is None or gv is None:
            require(ev is None and gv is None, tag + "transient-node-value-mismatch", lambda: f"{k}: {gv} vs {ev}; {det()}")
            continue
        a, b = np.asarray(gv, dtype=np.float64), np.asarray(ev, dtype=np.float64)
        ok = a.shape == b.shape and (np.array_equal(a, b, equal_nan=True) if exact else np.allclose(a, b, rtol=2e-6, atol=2e-6, equal_nan=True))
        require(bool(ok), tag + "not-the-state-of-direct-assignment", lambda: f"node {k}: got {a.tolist()} direct {b.tolist()}; {det()}")
        ge, ee = got[k].extra, exp[k].extra
        if ge is not None or ee is not None:
            ok = ge is not None and ee is not None and len(ge) == len(ee) and all(np.allclose(np.asarray(x), np.asarray(y), rtol=2e-6, atol=2e-6) for x, y in zip(ge, ee))
            require(bool(ok), tag + "extra-state-of-node-not-that-of-direct-assignment", lambda: f"node {k}: extra {ge} direct {ee}; {det()}")


def oracle(case):
    spec = case["spec"]
    det = lambda: f"case={case}"  # noqa: E731
    clash_name = spec["vars"][0]["name"] if case["clash"] else None

    def build_once():
        from vlib.lz import tfd

        lvars = mg.build(spec)
        gb = lsl.GraphBuilder().add(*lvars)
        if case["clash"]:
            # a Value node that carries the name of a variable (a valid model: node names and variable names live in separate namespaces)
            cnode = lsl.Value(np.float32(1.25), _name=clash_name)
            gb.add(lsl.Calc(lambda x: jnp.asarray(x) * 2, cnode, _name="clash_user"))
        if case.get("dep_bij"):
            # a transformed variable whose (default) bijector depends on another model variable: Uniform(-1, hi) -> Sigmoid(-1, hi)
            hi = lsl.Var(np.float32(2.0), name="hi")
            xb = lsl.param(np.float32(0.3), lsl.Dist(tfd.Uniform, low=np.float32(-1.0), high=hi), name="xb")
            xb.transform(None)
            gb.add(lsl.obs(np.float32(0.1), lsl.Dist(tfd.Normal, loc=xb, scale=np.float32(1.0)), name="wb"))
        if case.get("int_var"):
            # a variable whose current value is integer-typed although positions for it are real-valued (direct assignment keeps what it is given)
            dose = lsl.Var(np.array([1, 2, 3], dtype=np.int32), name="dose")
            eff = lsl.Var(lsl.Calc(lambda d: jnp.sum(jnp.asarray(d, dtype=jnp.float32)) / 4.0, dose), name="dose_effect")
            gb.add(lsl.obs(np.float32(0.2), lsl.Dist(tfd.Normal, loc=eff, scale=np.float32(1.0)), name="wd"))
        if case.get("bool_var"):
            # a node whose value is the Python singleton True (a switch), next to a per-observation likelihood with a vector log-density
            flag = lsl.Var(True, name="use_offset")
            offs = lsl.Calc(lambda f: jnp.where(f, jnp.float32(0.5), jnp.float32(0.0)), flag)
            gb.add(lsl.obs(np.array([0.1, 0.2, 0.3], dtype=np.float32), lsl.Dist(tfd.Normal, loc=offs, scale=np.float32(1.0)), name="wf"))
        if case.get("extra_node"):
            gb.add(ExtraNode(lvars[-1], _name="extra_node"))
        if case.get("user_lp"):
            # user-supplied joint density (GraphBuilder.log_prob_node): a tempered sum of the generated variables' log-densities
            dns = [v.dist_node for v in lvars if v.dist_node is not None]
            kind = int(case["user_lp"])
            if kind == 3:
                # a density the user computes from the variables' values, in a node that caches nothing (transient)
                gb.log_prob_node = lsl.TransientCalc(lambda *vs: -0.25 * sum(jnp.sum(jnp.square(jnp.asarray(v, dtype=jnp.float32))) for v in vs), *lvars, _name="own_lp")
            elif dns and kind == 2:
                gb.log_prob_node = lsl.TransientCalc(lambda *lps: 0.5 * sum(jnp.sum(lp) for lp in lps), *dns, _name="tempered_lp")
            elif dns:
                gb.log_prob_node = lsl.Calc(lambda *lps: 0.5 * sum(jnp.sum(lp) for lp in lps), *dns, _name="tempered_lp")
        return gb.build_model()

    user = build_once()
    # reference: an independent second build of the same program (not a deep copy: copies share function objects with the original)
    ref = build_once()
    ref.auto_update = False
    if case["pending"]:
        user.auto_update = False
        v0 = user.vars[spec["vars"][0]["name"]]
        v0.value = np.asarray(mg.values_from_z(spec, [[0.7] * len(d["z"]) for d in spec["vars"]])[0], dtype=np.float32)
    user_before = state_values(user.state)
    user_flags = {n.name: n.outdated for n in user.nodes.values()}
    auto_before = user.auto_update
    if case.get("alias"):
        import warnings

        with warnings.catch_warnings():
            warnings.simplefilter("ignore")
            iface = lsl.GooseModel(user)          # the deprecated alias must obey the same laws
    else:
        iface = gs.LieselInterface(user)
    require(user.auto_update == auto_before, "constructing-interface-modified-user-model:auto_update-setting", lambda: f"auto_update {auto_before} -> {user.auto_update}; {det()}")
    require(tree_equal_vals(user_before, state_values(user.state)) and user_flags == {n.name: n.outdated for n in user.nodes.values()},
            "constructing-interface-modified-user-model", lambda: f"flags before {sorted(k for k, v in user_flags.items() if v)} "
            f"after {sorted(n.name for n in user.nodes.values() if n.outdated)}; {det()}")
    ref.update()
    pool = [ref.state]
    calls = []                     # (position, state index, mode) of earlier update calls, for repeats
    n_updates, modes_seen, had_repeat, nt_order = 0, [], False, False
    jit_update = jax.jit(iface.update_state)

    def direct(position, state):
        ref.state = state
        for k, v in position.items():
            if k in ref.vars and k != clash_name:
                ref.vars[k].value = v
            else:
                ref.nodes[k].value = v
        ref.update()
        return ref.state

    def make_position(zs, style, mask):
        vals = mg.values_from_z(spec, [z[: len(d["z"])] for z, d in zip(zs, spec["vars"])])
        pos = {}
        for i, d in enumerate(spec["vars"]):
            if not mask[i] and i != 0:
                continue
            name = d["name"] if style == "var" else user.vars[d["name"]].value_node.name
            if d["name"] == clash_name and style == "var":
                name = user.vars[d["name"]].value_node.name      # the clash key is handled separately below
            pos[name] = jnp.asarray(np.asarray(vals[i], dtype=np.float32))
        if case.get("dep_bij"):
            k = int(abs(zs[0][0]) * 10) % 4
            if k % 2 == 0:
                pos["hi"] = jnp.float32(case["hi"][k])
            pos["xb_transformed"] = jnp.float32(zs[0][1])
        if case.get("int_var") and int(abs(zs[0][0]) * 100) % 3 != 0:
            pos["dose"] = jnp.asarray(np.array([0.5, 1.5, 2.5], dtype=np.float32) + np.float32(zs[0][0]))
        return pos

    def run_update(pos, sidx, mode, tag, pool_len=None):
        state = pool[sidx]
        snap = state_values(state)
        leaves_before = [id(x) for x in jax.tree_util.tree_leaves(state)]
        if mode == "eager":
            out = iface.update_state(pos, state)
            outs = [(pos, state, out)]
        elif mode == "jit":
            out = jit_update(pos, state)
            outs = [(pos, state, out)]
        elif mode == "vmap_pos":
            B = 3
            bpos = {k: jnp.stack([v + 0.125 * b for b in range(B)]) for k, v in pos.items()}
            bout = jax.vmap(iface.update_state, in_axes=(0, None))(bpos, state)
            outs = [({k: v[b] for k, v in bpos.items()}, state, jax.tree_util.tree_map(lambda x: x[b], bout)) for b in range(B)]
            out = outs[0][2]
        else:
            npool = pool_len or len(pool)          # (a repeat re-issues exactly the same batch: same states, same batch size)
            B = min(2, npool)
            idxs = [(sidx + b) % npool for b in range(B)]
            bstate = jax.tree_util.tree_map(lambda *xs: jnp.stack([jnp.asarray(x) for x in xs]), *[pool[i] for i in idxs])
            bpos = {k: jnp.stack([v + 0.125 * b for b in range(B)]) for k, v in pos.items()}
            bout = jax.vmap(iface.update_state, in_axes=(0, 0))(bpos, bstate)
            outs = [({k: v[b] for k, v in bpos.items()}, pool[idxs[b]], jax.tree_util.tree_map(lambda x: x[b], bout)) for b in range(B)]
            out = outs[0][2]
        # non-mutation of the input state and of the user's model
        require(tree_equal_vals(snap, state_values(state)) and leaves_before == [id(x) for x in jax.tree_util.tree_leaves(state)],
                tag + "input-state-modified", det)
        require(tree_equal_vals(user_before, state_values(user.state)) and user_flags == {n.name: n.outdated for n in user.nodes.values()}
                and user.auto_update == auto_before, tag + "user-model-modified", det)
        for p, s_in, o in outs:
            if any(not in_support(spec, p, user) for _ in [0]):
                continue
            exp = direct(p, s_in)
            compare_states(o, exp, mode == "eager", tag, det)
            back = iface.extract_position(list(p.keys()), o)
            for k in p:
                a, b = np.asarray(back[k]), np.asarray(p[k])
                require(a.shape == b.shape and bool(np.array_equal(a, b) if mode == "eager" else np.allclose(a, b, rtol=1e-6)), tag + "extract-does-not-return-position",
                        lambda: f"key {k}: {a.tolist()} vs {b.tolist()}; {det()}")
            lp = np.asarray(iface.log_prob(o), dtype=np.float64)
            elp = np.asarray(ref.log_prob, dtype=np.float64)
            require(lp.shape == elp.shape and bool(np.allclose(lp, elp, rtol=3e-6, atol=3e-6, equal_nan=True)), tag + "interface-log_prob-differs-from-model", lambda: f"{lp} vs {elp}; {det()}")
        return outs[0][2] if mode in ("eager", "jit") else outs[0][2]

    for step, op in enumerate(case["ops"]):
        tag = ""
        if op[0] == "update":
            _, mode, sidx, zs, style, mask = op
            sidx %= len(pool)
            pos = make_position(zs, style, mask)
            out = run_update(pos, sidx, mode, tag)
            calls.append((pos, sidx, mode, out, len(pool)))
            pool.append(materialise(out))
            n_updates += 1
            if mode == "eager" and any(m != "eager" for m in modes_seen):
                nt_order = True
            modes_seen.append(mode)
        elif op[0] == "pair":
            # two eager calls in a row on the SAME state object; the second position may omit keys the first one changed
            _, sidx, zs1, m1, zs2, m2 = op
            sidx %= len(pool)
            p1, p2 = make_position(zs1, "var", m1), make_position(zs2, "var", m2)
            o1 = run_update(p1, sidx, "eager", "pair-first:")
            o2 = run_update(p2, sidx, "eager", "pair-second:")
            calls.append((p2, sidx, "eager", o2, len(pool)))
            pool.append(materialise(o2))
            n_updates += 2
            modes_seen += ["eager", "eager"]
        elif op[0] == "repeat" and calls:
            pos, sidx, mode, first, npool0 = calls[op[1] % len(calls)]
            again = run_update(pos, sidx, mode, "repeat:", pool_len=npool0)
            require(tree_equal_bits(strip(first), strip(again)), "result-depends-on-earlier-calls", lambda: f"step {step}: repeating call {op[1] % len(calls)} ({mode}) gave a different state; {det()}")
            had_repeat = True
        elif op[0] == "extract":
            st = pool[op[1] % len(pool)]
            keys = [d["name"] for d in spec["vars"] if d["name"] != clash_name]
            got = iface.extract_position(keys, st)
            require(list(got.keys()) == keys, "extract-key-order", det)
            for k in keys:
                vn = user.vars[k].value_node.name
                require(np.array_equal(np.asarray(got[k]), np.asarray(st[vn].value)), "extract-by-variable-name-wrong", lambda: f"{k}; {det()}")
        elif op[0] == "logprob":
            st = pool[op[1] % len(pool)]
            ref.state = st
            a, b = np.asarray(iface.log_prob(st), dtype=np.float64), np.asarray(ref.log_prob, dtype=np.float64)
            require(bool(np.allclose(a, b, rtol=3e-6, atol=3e-6, equal_nan=True)), "interface-log_prob-differs-from-model", lambda: f"{a} vs {b}; {det()}")
    # the clash key: put/get law (node-first resolution on both sides)
    if clash_name is not None:
        st = pool[-1]
        out = iface.update_state({clash_name: jnp.float32(3.5)}, st)
        back = iface.extract_position([clash_name], out)
        require(float(back[clash_name]) == 3.5, "put-get-law-violated-for-name-shared-by-variable-and-node", lambda: f"got {back[clash_name]}; {det()}")
        require(float(out["clash_user"].value) == 7.0, "clash-key-update-not-propagated", det)
    nt = n_updates >= 3 and nt_order and had_repeat
    return {"nt": bool(nt), "cls": [f"updates{min(n_updates, 5)}", "repeat" if had_repeat else "norepeat", "pending" if case["pending"] else "clean",
                                    "clash" if case["clash"] else "noclash"] + sorted(set(modes_seen))}


def in_support(spec, pos, user):
    return True


def strip(state):
    """pytree of arrays only (NodeState holds python bools / None)"""
    return {k: (None if v.value is None else v.value) for k, v in state.items()}


def materialise(state):
    from liesel.model.nodes import NodeState

    return {k: NodeState(None if v.value is None else jnp.asarray(v.value), bool(np.asarray(v.outdated).any()), v.extra) for k, v in state.items()}


def tree_equal_vals(a, b):
    if set(a) != set(b):
        return False
    for k in a:
        (va, oa), (vb, ob) = a[k], b[k]
        if oa != ob or (va is None) != (vb is None):
            return False
        if va is not None and not (va.shape == vb.shape and np.array_equal(va, vb, equal_nan=True)):
            return False
    return True


# ------------------------------------------------------------------------------ record interfaces
@dataclasses.dataclass
class DState:
    a: jnp.ndarray
    b: jnp.ndarray
    c: jnp.ndarray


@dataclasses.dataclass
class DStateInit:
    """dataclass state with a field that is not an __init__ argument (like the DA kernel states)"""

    a: jnp.ndarray
    b: jnp.ndarray
    c: jnp.ndarray
    counter: float = dataclasses.field(default=0.0, init=False)


class NState(NamedTuple):
    a: jnp.ndarray
    b: jnp.ndarray
    c: jnp.ndarray


def gen_records():
    from hypothesis import strategies as st
    from vlib.gens import f32

    arr = st.lists(f32(-5, 5), min_size=1, max_size=3)
    return st.fixed_dictionaries({"kind": st.sampled_from(["dict", "dataclass", "dataclass_initfalse", "namedtuple"]), "a": arr, "b": arr, "c": arr,
                                  "p1": st.dictionaries(st.sampled_from(["a", "b", "c"]), arr, min_size=1, max_size=3),
                                  "p2": st.dictionaries(st.sampled_from(["a", "b", "c"]), arr, min_size=1, max_size=3), "bad_key": st.booleans()})


def oracle_records(c):
    lp = lambda s: -jnp.sum((s["a"] if isinstance(s, dict) else s.a) ** 2)  # noqa: E731
    mk = lambda d: {k: jnp.asarray(np.asarray(v, dtype=np.float32)) for k, v in d.items()}  # noqa: E731
    base = mk({k: c[k] for k in "abc"})
    if c["kind"] == "dict":
        iface, state = gs.DictInterface(lp), dict(base)
        get = lambda s, k: s[k]  # noqa: E731
    elif c["kind"] == "dataclass":
        iface, state = gs.DataclassInterface(lp), DState(**base)
        get = lambda s, k: getattr(s, k)  # noqa: E731
    elif c["kind"] == "dataclass_initfalse":
        iface, state = gs.DataclassInterface(lp), DStateInit(**base)
        state.counter = 5.0
        get = lambda s, k: getattr(s, k)  # noqa: E731
    else:
        iface, state = gs.NamedTupleInterface(lp), NState(**base)
        get = getattr
    det = f"{c}"
    p1, p2 = mk(c["p1"]), mk(c["p2"])
    ids = {k: id(get(state, k)) for k in "abc"}
    s1 = iface.update_state(p1, state)
    for k in "abc":
        require(id(get(state, k)) == ids[k] and np.array_equal(np.asarray(get(state, k)), np.asarray(base[k])), "record:input-state-mutated", det)
        exp = p1.get(k, base[k])
        require(np.array_equal(np.asarray(get(s1, k)), np.asarray(exp)), "record:put-get" if k in p1 else "record:untouched-field-changed", f"field {k}; {det}")
    if c["kind"] == "dataclass_initfalse":
        require(s1.counter == 5.0 and state.counter == 5.0, "record:untouched-field-changed", f"field counter (init=False): {s1.counter}; {det}")
        s_c = iface.update_state({"counter": 9.0}, state)
        require(s_c.counter == 9.0 and state.counter == 5.0, "record:put-get", f"field counter (init=False); {det}")
    back = iface.extract_position(list(p1.keys()), s1)
    require(list(back.keys()) == list(p1.keys()) and all(np.array_equal(np.asarray(back[k]), np.asarray(p1[k])) for k in p1), "record:extract-does-not-return-position", det)
    s_same = iface.update_state(iface.extract_position(["a", "b", "c"], s1), s1)
    require(all(np.array_equal(np.asarray(get(s_same, k)), np.asarray(get(s1, k))) for k in "abc"), "record:update-with-own-extract-not-identity", det)
    s12 = iface.update_state(p2, iface.update_state(p1, state))
    for k in "abc":
        exp = p2.get(k, p1.get(k, base[k]))
        require(np.array_equal(np.asarray(get(s12, k)), np.asarray(exp)), "record:later-update-does-not-win", f"field {k}; {det}")
    require(float(iface.log_prob(s1)) == float(-jnp.sum(get(s1, "a") ** 2)), "record:log_prob", det)
    if c["bad_key"] and c["kind"] != "dict":
        try:
            iface.update_state({"nope": jnp.float32(1.0)}, state)
            raise Violation("record:unknown-field-accepted", det)
        except Violation:
            raise
        except Exception:  # noqa: BLE001
            pass
    return {"nt": len(p1) >= 2 or bool(set(p1) & set(p2)), "cls": [c["kind"]]}


SUBS = [
    Sub("liesel", oracle, gen=gen, n={"quick": 320, "thorough": 6000}, shrink_calls=40, what="LieselInterface call histories vs direct assignment; modes; purity"),
    Sub("records", oracle_records, gen=gen_records, n={"quick": 600, "thorough": 10000}, what="Dict / Dataclass / NamedTuple interface laws"),
]
