"""C01 — Model cache coherence: an update restores exactly the from-scratch values.

Generated node DAGs (vlib.graphgen: value / cached / transient / variable-proxy / distribution / input-group / seeded nodes)
and generated histories of the public mutating operations (assignment through variable or node, auto-update toggle, full and
targeted update, state save / restore, set_seed).  After every step:
  I1  every node that reports itself up to date holds exactly the value a from-scratch (uncached) recomputation gives
  I2  after update() / after an assignment with auto-update on, no node is outdated
  I3  after update(*names) every named node and all its ancestors are up to date
  I4  during one update no caching node is evaluated more than once, and a node is evaluated only if one of its ancestors
      was assigned since it was last computed (version vectors travel with saved states)
"""
from __future__ import annotations

import itertools

import numpy as np

from vlib import graphgen as gg
from vlib.lz import jax, jnp, lsl
from vlib.runner import Sub, require

PROPERTY = "C01"
RULE = ("cases = (graph spec of 4-14 declarations, op-list of 1-40 operations over assign / auto-update toggle / update() / update(*names) / "
        "save state / restore state / set_seed); non-trivial = history with an assignment while auto-update is off that is followed by a "
        "targeted update or a restore, on a graph with a transient node between two cached nodes; distinct = SHA-1 of (spec, ops)")
ASSUMPTIONS = [
    "only the operations listed in the statement are used (Node.update() called directly is not one of them)",
    "user node functions are integer-affine on small integers (exact in float32): values are compared exactly (NaN == NaN); the model's own "
    "_model_log_* sums are compared with rtol 1e-6 because their summation order is an implementation detail",
    "only declared sources are assigned; auto-named constant nodes (e.g. a distribution's scale) are left alone",
]
SHARDS = {"quick": 16, "thorough": 16}
TECHNIQUE = ("Hypothesis-generated DAGs and operation histories (op-lists, shrunk as one value) against a reference model with version "
             "vectors and an uncached naive evaluator; call counters on every caching node; invariants checked after every step")
LEVEL_TEXT = ("Model-based stateful testing: the real Model is driven through generated histories of its public mutating operations and "
              "after every step compared with (a) an uncached recomputation from the current inputs and (b) a reference model of which "
              "caching nodes may be / must be evaluated, observed through per-node call counters. Exploration of generated graphs up to 14 "
              "declarations and 40 steps, not a proof.")
LEVEL_NOTE = "Trusts the naive evaluator in vlib/graphgen.py (same Python functions, no caching) and the version-vector reference model."


def gen():
    from hypothesis import strategies as st

    # how: through the variable, through its value node, or "inplace" = the current (numpy) value object is changed in place and assigned back
    assign = st.tuples(st.just("assign"), st.integers(0, 50), st.integers(0, 40), st.sampled_from(["var", "node", "node", "inplace"]))
    targeted = st.tuples(st.just("update_names"), st.lists(st.integers(0, 200), min_size=1, max_size=3))
    op = st.one_of(
        assign, assign, assign,
        st.tuples(st.just("auto"), st.booleans()), st.tuples(st.just("auto"), st.just(False)),
        st.tuples(st.just("update")),
        targeted, targeted, targeted,
        st.tuples(st.just("save")), st.tuples(st.just("save")),
        st.tuples(st.just("restore"), st.integers(0, 10)), st.tuples(st.just("restore"), st.integers(0, 10)),
        st.tuples(st.just("seed"), st.integers(0, 1000)),
        st.tuples(st.just("rebuild")),
    ).map(list)
    # macro: assignment with auto-update off, immediately followed by a targeted update (then sometimes a full update)
    probe = st.tuples(st.integers(0, 50), st.integers(0, 40), st.lists(st.integers(0, 200), min_size=1, max_size=2), st.booleans()).map(
        lambda t: [["auto", False], ["assign", t[0], t[1], "node"], ["update_names", t[2]]] + ([["update"]] if t[3] else []))
    # macro: a state saved while nodes are outdated is restored after the model was brought up to date, then a full update follows directly
    probe2 = st.tuples(st.integers(0, 50), st.integers(0, 40)).map(
        lambda t: [["auto", False], ["assign", t[0], t[1], "node"], ["save"], ["update"], ["restore", -1], ["update"]])
    block = st.one_of(op.map(lambda o: [o]), op.map(lambda o: [o]), op.map(lambda o: [o]), probe, probe2)
    ops = st.lists(block, min_size=1, max_size=24).map(lambda bl: [o for b in bl for o in b][:40])
    return st.fixed_dictionaries({"spec": gg.spec_strategy(), "ops": ops, "entry": st.sampled_from(["builder", "builder", "model", "copy_late"])})


def eq_exact(a, b) -> bool:
    a, b = np.asarray(a), np.asarray(b)
    return a.shape == b.shape and bool(np.array_equal(a, b, equal_nan=True))


def close(a, b) -> bool:
    a, b = np.asarray(a, dtype=np.float64), np.asarray(b, dtype=np.float64)
    return a.shape == b.shape and bool(np.allclose(a, b, rtol=1e-6, atol=1e-6, equal_nan=True))


class Ref:
    """Reference model: version of every source, and per caching node the source versions it was last computed from."""

    def __init__(self, built: gg.Built):
        self.b = built
        self.clock = itertools.count(1)
        self.ver = {s: 0 for s in built.sources()}
        for i, d in enumerate(built.decls):
            if d["kind"] == "scalc":
                self.ver[f"seed:{i}"] = 0
        self.seen = {}
        for key in built.counts:
            self.seen[key] = self.current(key)

    def deps(self, key):
        if isinstance(key, tuple):
            return self.b.dist_ancestors(key[1])
        if self.b.decls[key]["kind"] == "pitvar":
            return self.b.pit_ancestors(key)
        return self.b.ancestors(key)

    def current(self, key):
        return {s: self.ver[s] for s in self.deps(key)}

    def assign(self, s):
        self.ver[s] = next(self.clock)

    def snapshot(self):
        return (dict(self.ver), {k: dict(v) for k, v in self.seen.items()})

    def restore(self, snap):
        self.ver, self.seen = dict(snap[0]), {k: dict(v) for k, v in snap[1].items()}


def check_coherent(b: gg.Built, model, tag, det):
    """I1 for every node of the model."""
    memo = {}
    for i, d in enumerate(b.decls):
        node = b.value_node(i, model)
        if not node.outdated:
            same = close(node.value, b.naive(i, model, memo)) if d["kind"] == "pitvar" else eq_exact(node.value, b.naive(i, model, memo))
            require(same, tag + "stale-value-reported-up-to-date",
                    lambda: f"decl {i} ({d['kind']} {node.name}): cached {np.asarray(node.value).tolist()} from-scratch {np.asarray(b.naive(i, model, memo)).tolist()}; {det()}")
        o = b.objs[i] if model is b.model else None
        var = model.vars.get(d["name"]) if d["kind"] in gg.VAR_KINDS else None
        if var is not None:
            vv = var.var_value_node
            if not vv.outdated:
                same = close(vv.value, b.naive(i, model, memo)) if d["kind"] == "pitvar" else eq_exact(vv.value, b.naive(i, model, memo))
                require(same, tag + "stale-value-reported-up-to-date", lambda: f"var-value proxy of decl {i}; {det()}")
            if d["kind"] in gg.WITH_DIST:
                dn = var.dist_node
                if not dn.outdated:
                    require(close(dn.value, b.naive_logprob(i, model, memo)), tag + "stale-log-prob-reported-up-to-date",
                            lambda: f"dist node of decl {i}: cached {np.asarray(dn.value).tolist()} from-scratch {np.asarray(b.naive_logprob(i, model, memo)).tolist()}; {det()}")
    # the model's own totals
    lp_nodes = [i for i, d in enumerate(b.decls) if d["kind"] in gg.WITH_DIST]
    tot = model.nodes["_model_log_prob"]
    if not tot.outdated:
        exp = sum((np.asarray(b.naive_logprob(i, model, memo), dtype=np.float64).sum() for i in lp_nodes), 0.0)
        require(bool(np.allclose(np.asarray(tot.value, dtype=np.float64), exp, rtol=2e-5, atol=1e-4)), tag + "stale-model-log-prob",
                lambda: f"_model_log_prob {tot.value} from-scratch {exp}; {det()}")


def oracle(case):
    spec, ops = case["spec"], case["ops"]
    b = gg.Built(spec)
    model = b.build(entry=case.get("entry", "builder"))
    b.reset_counts()
    ref = Ref(b)
    det = lambda: f"spec={spec} ops={ops}"  # noqa: E731
    require(not any(n.outdated for n in model.nodes.values()), "built-model-has-outdated-nodes", det)
    check_coherent(b, model, "build:", det)
    b.reset_counts()
    sources = b.sources()
    pit_sources = {d["inputs"][0][0] for d in spec if d["kind"] == "pitvar"}
    names = sorted(model.nodes)
    seeds = [i for i, d in enumerate(spec) if d["kind"] == "scalc"]
    saved = []
    saved_ids = set()
    auto = True
    pending_off_assign = False
    nt_hist = False

    def after_update(kind, n_updates=1):
        # I4: each caching node evaluated at most once per update and only with a reason
        for key, cnt in b.counts.items():
            i = key[1] if isinstance(key, tuple) else key
            if isinstance(key, tuple) and i in pit_sources:
                continue        # a PIT node initialises this distribution as well: its constructor calls are not evaluations of the Dist node
            what = f"{'dist of ' if isinstance(key, tuple) else ''}decl {i} ({spec[i]['kind']})"
            require(cnt <= n_updates, "evaluated-more-than-once-in-one-update", lambda: f"{what}: {cnt} evaluations during {kind}; {det()}")
            if cnt >= 1:
                require(ref.seen[key] != ref.current(key), "evaluated-without-an-assigned-ancestor",
                        lambda: f"{what} was recomputed during {kind} although no ancestor was assigned since its last computation; {det()}")
                ref.seen[key] = ref.current(key)
        b.reset_counts()

    for step, op in enumerate(ops):
        kind = op[0]
        b.reset_counts()
        if kind == "assign":
            s = sources[op[1] % len(sources)]
            val = gg._val(spec[s], op[2])
            obj = b.objs[s]
            cur = b.value_node(s, model).value
            if op[3] == "inplace" and isinstance(cur, np.ndarray) and cur.flags.writeable and cur.shape == np.shape(val) and id(cur) not in saved_ids:
                cur[...] = val                      # same object, new contents: still an assignment
                b.value_node(s, model).value = cur
            elif isinstance(obj, lsl.Var) and op[3] == "var":
                (model.vars[obj.name] if getattr(b, "copied", False) else obj).value = val
            else:
                b.value_node(s, model).value = val
            ref.assign(s)
            if auto:
                after_update(f"auto-update after assignment #{step}")
                require(not any(n.outdated for n in model.nodes.values()), "outdated-node-after-auto-update",
                        lambda: f"step {step}: {[n.name for n in model.nodes.values() if n.outdated]}; {det()}")
            else:
                pending_off_assign = True
                require(all(c == 0 for c in b.counts.values()), "evaluation-with-auto-update-off", lambda: f"step {step}; {det()}")
        elif kind == "auto":
            auto = bool(op[1])
            model.auto_update = auto
        elif kind == "update":
            model.update()
            after_update(f"update() #{step}")
            require(not any(n.outdated for n in model.nodes.values()), "outdated-node-after-full-update",
                    lambda: f"step {step}: {[n.name for n in model.nodes.values() if n.outdated]}; {det()}")
            pending_off_assign = False
        elif kind == "update_names":
            tg = [names[k % len(names)] for k in op[1]]
            model.update(*tg)
            after_update(f"update{tuple(tg)} #{step}")
            for t in tg:
                stack, seen = [model.nodes[t]], set()
                while stack:
                    n = stack.pop()
                    if n.name in seen:
                        continue
                    seen.add(n.name)
                    require(not n.outdated, "targeted-update-left-node-or-ancestor-outdated",
                            lambda: f"step {step}: update({tg}) left {n.name} (ancestor of / equal to {t}) outdated; {det()}")
                    stack += list(n.all_input_nodes())
            if pending_off_assign:
                nt_hist = True
        elif kind == "save":
            saved.append((model.state, ref.snapshot()))
            # arrays referenced by a saved state must not be changed in place afterwards (that would be the harness corrupting its own snapshot)
            saved_ids.update(id(ns.value) for ns in saved[-1][0].values() if isinstance(ns.value, np.ndarray))
        elif kind == "restore":
            if saved:
                st, snap = saved[op[1] % len(saved)]
                model.state = st
                ref.restore(snap)
                if pending_off_assign:
                    nt_hist = True
                require(all(c == 0 for c in b.counts.values()), "evaluation-during-state-restore", lambda: f"step {step}; {det()}")
        elif kind == "rebuild":
            # the nodes leave the model and a second model is built from the same node objects: the history continues on that model
            nodes_, vars_ = model.pop_nodes_and_vars()
            model = lsl.GraphBuilder().add(*nodes_.values(), *vars_.values()).build_model()
            b.model = model
            auto, pending_off_assign = True, False
            saved.clear()
            saved_ids.clear()
            names = sorted(model.nodes)
            for i in seeds:
                ref.assign(f"seed:{i}")            # fresh seed nodes
            for key in b.counts:
                ref.seen[key] = ref.current(key)   # building evaluates every node
            require(not any(n.outdated for n in model.nodes.values()), "built-model-has-outdated-nodes", lambda: f"after rebuild at step {step}; {det()}")
        elif kind == "seed":
            if seeds:
                model.set_seed(jax.random.PRNGKey(op[1]))
                for i in seeds:
                    ref.assign(f"seed:{i}")
                if auto:  # set_seed assigns the seed nodes one by one: one auto-update per seed node
                    after_update(f"auto-updates after set_seed #{step}", n_updates=len(seeds))
        b.reset_counts()
        check_coherent(b, model, "", lambda: f"after step {step} {op}; {det()}")
        b.reset_counts()

    # structural non-triviality: a transient node between two cached nodes
    def cached(i):
        return spec[i]["kind"] in gg.CACHING or spec[i]["kind"] in gg.WITH_DIST

    sandwich = any(spec[i]["kind"] in ("tcalc", "tident") and any(cached(r) for r, _ in spec[i]["inputs"])
                   and any(cached(j) and any(r == i for r, _ in spec[j]["inputs"]) for j in range(len(spec))) for i in range(len(spec)))
    kinds = {d["kind"] for d in spec}
    cls = ["sandwich" if sandwich else "nosandwich", "hist-nt" if nt_hist else "hist-plain", "seeded" if seeds else "noseed",
           "dist" if kinds & set(gg.WITH_DIST) else "nodist", "restore" if any(o[0] == "restore" for o in ops) and saved else "norestore",
           "targeted" if any(o[0] == "update_names" for o in ops) else "notargeted"]
    return {"nt": bool(sandwich and nt_hist), "cls": cls}


SUBS = [
    Sub("coherence", oracle, gen=gen, n={"quick": 3000, "thorough": 60000}, shrink_calls=200,
        what="generated DAG x operation history; invariants I1-I4 after every step"),
]
