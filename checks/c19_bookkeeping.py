"""C19 — Error and sample bookkeeping in results and summaries is exact.

Generated schedules with error-emitting ProbeKernels: each kernel returns error codes from a generated (chain, time)
table; get_error_log(), Summary.error_summary, Summary.error_df(per_chain / aggregated) and sample_info are compared with
counts derived from the tables; pickling and ArviZ conversion must reproduce every stored sample bit-exactly.
"""
from __future__ import annotations

import os
import tempfile

import numpy as np

from vlib import enginelab as el
from vlib.lz import gs, jax, jnp, tree_equal_bits, silence
from vlib.runner import Sub, require, VERIF_DIR

from liesel.goose.epoch import EpochConfig, EpochType

PROPERTY = "C19"
RULE = ("cases = engine specs with per-kernel error-code tables (patterns none / warm-up only / posterior only / one chain only / dense; "
        "codes 1, 2, 7 and optionally 256, 300 from the kernel's error book; transition infos optionally minimised), 1-4 chains, 1-3 kernels, warm-up and posterior epochs with posterior thinning; "
        "non-trivial = >= 2 distinct codes, errors in both phases, in a strict subset of chains for some (kernel, code), and >= 2 kernels of "
        "which one is error-free; value_types: runs whose state holds int32 > 2^24, uint32 > 2^31, booleans and float32 fractions, non-trivial = "
        "integer beyond 2^24; distinct = SHA-1 of the spec")
ASSUMPTIONS = [
    "warmup_size_per_chain is compared only when every warm-up epoch has thinning 1 (stored == run there)",
    "relative error frequencies are not part of the property (counts are)",
]
SHARDS = {"quick": 16, "thorough": 16}
TECHNIQUE = ("Hypothesis-generated schedules and error-code tables injected through probe kernels; exact comparison of error log, "
             "summary counts and sample counts with table-derived counts; pickle / ArviZ round-trips")
LEVEL_TEXT = ("Generated-input testing with an exact oracle: the per-chain, per-iteration error codes are chosen by the generator, so every "
              "number reported by get_error_log, Summary.error_summary and Summary.error_df (per kernel, code, phase, chain) has a known "
              "expected value; sample counts are compared with what is stored; pkl_save/pkl_load and to_arviz_inference_data (with and "
              "without warm-up) must return bit-identical samples with the right chain/draw axes. Exploration, not proof.")
LEVEL_NOTE = "Trusts the table construction in vlib/enginelab.err_table and numpy counting."


def gen():
    from hypothesis import strategies as st

    base = st.one_of(
        el.schedule_strategy(max_dur=10, max_epochs=4, chains=(2, 4), want_script=False, err_tables=True, min_kernels=2),
        el.schedule_strategy(max_dur=10, max_epochs=4, chains=(2, 4), want_script=False, err_tables=True, min_kernels=2),
        el.schedule_strategy(max_dur=10, max_epochs=4, chains=(1, 4), want_script=False, err_tables=True))

    def fix(sp):
        # keep at least 4 stored posterior draws so that the summary statistics are defined
        post = [e for e in sp["epochs"] if e[0] == 4]
        stored = sum(e[1] // e[2] for e in post)
        if stored < 4:
            last = post[-1]
            last[1] = last[1] * 4
            import math

            durs = [e[1] for e in sp["epochs"][1:]]
            g = math.gcd(*durs)
            if g % sp["chunk"] != 0:
                sp["chunk"] = 1
            for kk in sp["kernels"]:
                if kk.get("errs"):
                    kk["errs"]["T"] = 1 + sum(durs)
        sp["excluded"] = []
        return sp

    def with_ids(t):
        sp, perm, mini, big = t
        sp["ids"] = [["zz_first", "mm_middle", "aa_last"][i] for i in perm][: len(sp["kernels"])] if perm else None
        sp["minimize"] = mini           # Engine(minimize_transition_infos=True) with the kernel's own / the inherited default minimize()
        for kk, b in zip(sp["kernels"], big):
            if kk.get("errs"):
                kk["errs"]["big"] = b   # documented codes beyond one byte (256, 300)
        return sp

    return st.tuples(base.map(fix), st.one_of(st.none(), st.permutations([0, 1, 2])), st.sampled_from([None, None, "own", "inherit"]),
                     st.lists(st.booleans(), min_size=3, max_size=3)).map(with_ids)


def phases(spec):
    """boolean masks over transitions (index = time-1): posterior, warm-up"""
    post = []
    for t, d, _ in spec["epochs"][1:]:
        post += [t == 4] * d
    post = np.array(post, dtype=bool)
    return post, ~post


def oracle(spec):
    det = f"epochs={spec['epochs']} chains={spec['chains']} modes={[k['errs']['mode'] for k in spec['kernels']]}"
    eng, _ = el.run_all(spec, with_errs=True)
    res = eng.get_results()
    ref = el.reference(spec)
    C = spec["chains"]
    post, warm = phases(spec)
    ids = el.kernel_ids(spec)
    tabs = {ids[i]: el.err_table(spec, kk)[:, 1:] for i, kk in enumerate(spec["kernels"])}   # (C, transitions)
    books = {ids[i]: (el.ProbeKernelH if kk["hist"] else el.ProbeKernel).error_book for i, kk in enumerate(spec["kernels"])}

    # ---- error log
    for posterior_only in (False, True):
        log = res.get_error_log(posterior_only).unwrap()
        require(sorted(log) == sorted(tabs), "error-log:kernels", f"{sorted(log)}; {det}")
        for kid, tab in tabs.items():
            t = tab[:, post] if posterior_only else tab
            mask = np.any(t != 0, axis=0)
            kel = log[kid]
            tag = "error-log" + (":posterior" if posterior_only else "")
            require(np.array_equal(np.asarray(kel.transition), np.where(mask)[0]), tag + ":transitions",
                    lambda: f"{kid}: got {np.asarray(kel.transition).tolist()} expected {np.where(mask)[0].tolist()}; {det}")
            require(np.array_equal(np.asarray(kel.error_codes), t[:, mask]), tag + ":codes", lambda: f"{kid}; {det}")
            require(kel.kernel_ident == kid and kel.kernel_cls.unwrap().error_book[7] == books[kid][7], tag + ":kernel-class",
                    lambda: f"{kid}: error log carries class {kel.kernel_cls.unwrap().__name__}; {det}")

    # ---- summary
    with silence():
        summ = gs.Summary(res)
        summ_pc = gs.Summary(res, per_chain=True)
    es = summ.error_summary
    require(sorted(es) == sorted(tabs), "summary:kernels", f"{sorted(es)}; {det}")
    n_codes, both_phases, subset, errfree = set(), False, False, False
    for kid, tab in tabs.items():
        codes = sorted(int(c) for c in np.unique(tab) if c != 0)
        require(sorted(int(k) for k in es[kid]) == codes, "summary:codes", lambda: f"{kid}: reported {sorted(es[kid])} expected {codes}; {det}")
        if not codes:
            errfree = True
        for code in codes:
            e = es[kid][code]
            tot = np.sum(tab == code, axis=1)
            pst = np.sum(tab[:, post] == code, axis=1)
            require(np.array_equal(np.asarray(e.count_per_chain), tot), "summary:count_per_chain",
                    lambda: f"{kid} code {code}: {np.asarray(e.count_per_chain).tolist()} expected {tot.tolist()}; {det}")
            require(e.count_per_chain_posterior is not None and np.array_equal(np.asarray(e.count_per_chain_posterior), pst),
                    "summary:count_per_chain_posterior", lambda: f"{kid} code {code}: {e.count_per_chain_posterior} expected {pst.tolist()}; {det}")
            require(e.error_msg == books[kid][code] and int(e.error_code) == code, "summary:error-message", f"{kid} code {code}: {e.error_msg!r} expected {books[kid][code]!r}; {det}")
            n_codes.add(code)
            both_phases |= bool(pst.sum() > 0 and (tot - pst).sum() > 0)
            subset |= bool(0 < np.sum(tot > 0) < C)
    # ---- error_df
    for per_chain, s in ((True, summ), (False, summ), (True, summ_pc)):
        df = s.error_df(per_chain=per_chain)
        exp = {}
        for kid, tab in tabs.items():
            for code in sorted(int(c) for c in np.unique(tab) if c != 0):
                for phase, m in (("warmup", warm), ("posterior", post)):
                    cnt = np.sum(tab[:, m] == code, axis=1)
                    if per_chain:
                        for c in range(C):
                            exp[(kid, code, books[kid][code], phase, c)] = int(cnt[c])
                    else:
                        exp[(kid, code, books[kid][code], phase)] = int(cnt.sum())
        if not exp:
            require(df.empty, "error_df:not-empty-without-errors", det)
            continue
        got = {tuple(int(x) if isinstance(x, (np.integer,)) else x for x in idx): int(v) for idx, v in df["count"].items()}
        require(got == exp, "error_df:counts" + (":per-chain" if per_chain else ":aggregated"),
                lambda: f"differences: { {k: (got.get(k), exp.get(k)) for k in set(got) | set(exp) if got.get(k) != exp.get(k)} }; {det}")
    # ---- sample info
    tracked = el.tracked_keys(spec)
    stored_post = int(np.sum([spec["epochs"][e][0] == 4 for e in ref[0]["stored_epoch"]]))
    si = summ.sample_info
    require(int(si["num_chains"]) == C, "sample_info:num_chains", f"{si}; {det}")
    require(int(si["sample_size_per_chain"]) == stored_post, "sample_info:sample_size_per_chain", f"{si} stored={stored_post}; {det}")
    if all(k == 1 for t, d, k in spec["epochs"][1:] if t != 4):
        wsz = sum(d for t, d, k in spec["epochs"][1:] if t != 4)
        require(int(si["warmup_size_per_chain"]) == wsz, "sample_info:warmup_size_per_chain", f"{si} expected {wsz}; {det}")

    # ---- pickle round trip
    d = os.path.join(VERIF_DIR, ".work", "c19")
    os.makedirs(d, exist_ok=True)
    fd, path = tempfile.mkstemp(suffix=".pkl", dir=d)
    os.close(fd)
    try:
        res.pkl_save(path)
        back = gs.SamplingResults.pkl_load(path)
    finally:
        os.unlink(path)
    require(tree_equal_bits(back.get_samples(), res.get_samples()), "pickle:positions", det)
    require(tree_equal_bits(back.get_posterior_samples(), res.get_posterior_samples()), "pickle:posterior", det)
    require(tree_equal_bits(back.transition_infos.combine_all().unwrap(), res.transition_infos.combine_all().unwrap()), "pickle:infos", det)
    require([ (e.type, e.duration, e.thinning) for e in back.positions.get_epochs()] == [(e.type, e.duration, e.thinning) for e in res.positions.get_epochs()],
            "pickle:epochs", det)

    # ---- ArviZ
    from liesel.experimental.arviz import to_arviz_inference_data

    warm_types = {1, 2, 3}
    has_warm = any(e[0] in warm_types for e in spec["epochs"])
    for include_warmup in ([False, True] if has_warm else [False]):
        with silence():
            idata = to_arviz_inference_data(res, include_warmup=include_warmup)
        for k in tracked:
            for grp, sel in (("posterior", {4}), ("warmup_posterior", warm_types)):
                if grp == "warmup_posterior" and not include_warmup:
                    require(not hasattr(idata, "warmup_posterior"), "arviz:unrequested-warmup", det)
                    continue
                arr = np.asarray(getattr(idata, grp)[k].values)
                for c in range(C):
                    mask = np.array([spec["epochs"][e][0] in sel for e in ref[c]["stored_epoch"]])
                    exp = ref[c]["stored"][k][mask]
                    require(arr[c].shape == exp.shape and np.array_equal(arr[c].astype(np.int64), exp), f"arviz:{grp}",
                            lambda: f"key {k} chain {c}: shape {arr[c].shape} expected {exp.shape}; {det}")
                dims = getattr(idata, grp)[k].dims
                require(tuple(dims[:2]) == ("chain", "draw"), f"arviz:{grp}:dims", f"{dims}")
    nt = len(n_codes) >= 2 and both_phases and subset and len(spec["kernels"]) >= 2 and errfree
    cls = [f"codes{len(n_codes)}", "both-phases" if both_phases else "one-phase", "subset" if subset else "nosubset",
           f"kernels{len(spec['kernels'])}", "errfree-kernel" if errfree else "all-err", f"chains{C}", f"minimize:{spec.get('minimize')}",
           "codes>255" if any(c > 255 for c in n_codes) else "codes<256"] + sorted({k["errs"]["mode"] for k in spec["kernels"]})
    return {"nt": bool(nt), "cls": cls}


# ------------------------------------------------------------------------------ value types in the round-trips
def gen_types():
    from hypothesis import strategies as st

    return st.fixed_dictionaries({"chains": st.integers(1, 3), "post": st.integers(2, 6), "thin": st.sampled_from([1, 1, 2]), "warm": st.integers(0, 3),
                                  "big": st.sampled_from([20_000_001, 16_777_217, 2_000_000_003, 7]), "seed": st.integers(0, 1000)})


def oracle_types(c):
    """stored samples of several value types (float32 fractions, int32 beyond 2^24, uint32 beyond 2^31, booleans) survive pickling and the ArviZ
    conversion exactly: values and integer-ness ("preserves all stored samples exactly")"""
    import os
    import tempfile

    from liesel.experimental.arviz import to_arviz_inference_data

    C = c["chains"]
    model = gs.DictInterface(lambda s: -0.5 * s["x"] ** 2)
    big = min(c["big"], 2**31 - 4)
    st0 = {"x": jnp.float32(0.1), "cnt": jnp.int32(big), "word": jnp.uint32(3_000_000_001), "flag": jnp.asarray(True)}

    def step(key, s):
        return {"x": s["x"] + jnp.float32(1.0) / 3, "cnt": s["cnt"] + 1, "word": s["word"] + jnp.uint32(2), "flag": ~s["flag"]}

    b = gs.EngineBuilder(seed=c["seed"], num_chains=C)
    b.show_progress = False
    eps = [EpochConfig(EpochType.INITIAL_VALUES, 1, 1, None)] + ([EpochConfig(EpochType.BURNIN, c["warm"], 1, None)] if c["warm"] else [])
    eps.append(EpochConfig(EpochType.POSTERIOR, c["post"] * c["thin"], c["thin"], None))
    b.set_epochs(eps)
    b.set_model(model)
    b.set_initial_values(st0)
    b.add_kernel(gs.GibbsKernel(["x", "cnt", "word", "flag"], step))
    eng = b.build()
    eng.sample_all_epochs()
    res = eng.get_results()
    det = f"{c}"
    post = res.get_posterior_samples()
    # independent expectation of the stored posterior draws
    t0 = c["warm"]
    its = np.array([t0 + (k + 1) * c["thin"] for k in range(c["post"])])         # a posterior draw is stored after within-epoch iterations th, 2 th, ...
    exp_cnt = (big + its).astype(np.int64)
    got_cnt = np.asarray(post["cnt"])
    require(got_cnt.shape == (C, c["post"]) and bool(np.all(got_cnt.astype(np.int64) == exp_cnt[None, :])), "stored-samples-not-the-iteration-states", f"cnt {got_cnt[0].tolist()} expected {exp_cnt.tolist()}; {det}")
    d = os.path.join(os.environ.get("VERIF_DIR", "."), ".work", "c19")
    os.makedirs(d, exist_ok=True)
    fd, path = tempfile.mkstemp(suffix=".pkl", dir=d)
    os.close(fd)
    try:
        res.pkl_save(path)
        back = gs.SamplingResults.pkl_load(path)
    finally:
        os.unlink(path)
    require(tree_equal_bits(back.get_samples(), res.get_samples()) and tree_equal_bits(back.get_posterior_samples(), post), "pickle:typed-positions", det)
    for include_warmup in ([False, True] if c["warm"] else [False]):
        with silence():
            idata = to_arviz_inference_data(res, include_warmup=include_warmup)
        for k in ("x", "cnt", "word", "flag"):
            arr = np.asarray(idata.posterior[k].values)
            src = np.asarray(post[k])
            same = arr.shape == src.shape and bool(np.all(arr.astype(np.float64) == src.astype(np.float64)))
            require(same, "arviz:values-changed-by-conversion:" + str(src.dtype), lambda: f"key {k}: stored {src[0][:3].tolist()} converted {arr[0][:3].tolist()} (dtype {arr.dtype}); {det}")
    return {"nt": big > 2**24, "cls": [f"chains{C}", "warm" if c["warm"] else "nowarm", f"thin{c['thin']}"]}


SUBS = [
    Sub("bookkeeping", oracle, gen=gen, n={"quick": 48, "thorough": 1200}, shrink_calls=30,
        what="error log / summary / error_df / sample_info vs generated error tables; pickle and ArviZ round-trips"),
    Sub("value_types", oracle_types, gen=gen_types, n={"quick": 16, "thorough": 200}, shrink={"quick": False, "thorough": False}, min_per_shard=2,
        what="int32 > 2^24, uint32 > 2^31, booleans and float32 fractions survive pickle and ArviZ conversion exactly"),
]
