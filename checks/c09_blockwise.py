"""C09 — Kernels compose blockwise and keep the model state coherent.

Every kernel of a generated sequence (RW, IWLS, NUTS, HMC, MH, Gibbs over disjoint blocks, user-chosen non-alphabetical identifiers) is
wrapped in a transparent probe that records the full parameter vector and all derived quantities of the model state before and after its
transition.  Models: a Liesel regression graph with two or three parameter blocks, a transformed scale parameter, weak intermediate
variables, a derived prediction that feeds no distribution, and the model's log-prob / log-lik / log-prior nodes; and a dict model.
Oracle, for every chain, iteration and kernel (accepted and rejected moves):
  * configured order and threading: kernel i starts from the state kernel i-1 left (first kernel: previous iteration's final state)
  * a kernel changes only the parameters named in its own position keys; a rejected move changes nothing at all
  * after every transition all derived quantities and the stored log-probability equal a float64 recomputation from the stored parameters
  * deterministic order-sensitive Gibbs kernels (a <- a + 1 ; b <- 10 a) give the values of the configured order
"""
from __future__ import annotations

import math
from dataclasses import dataclass

import numpy as np
from scipy import stats as sps

from vlib.lz import gs, jax, jnp, lsl, tfb, tfd
from vlib.runner import Sub, require

from liesel.goose.epoch import EpochConfig, EpochType
from liesel.goose.kernel import DefaultTransitionInfo, TransitionOutcome
from liesel.goose.kernel_sequence import KernelSequence
from liesel.goose.pytree import register_dataclass_as_pytree

PROPERTY = "C09"
RULE = ("cases = (Liesel regression graph or dict model, 2-3 kernels from {RW, IWLS, NUTS, HMC, MH, Gibbs} over a generated partition of the "
        "parameter blocks in a generated order with non-alphabetical identifiers, step sizes giving 20-80% acceptance, 3 chains x 12-40 "
        "iterations, seed); non-trivial = some iteration contains both an accepted and a rejected kernel move; distinct = SHA-1 of the case")
ASSUMPTIONS = [
    "derived quantities are recomputed in float64 from the stored float32 parameters and compared with rtol 3e-5 (jitted engine vs eager "
    "re-evaluation differ by float32 rounding; bitwise equality would be a false alarm)",
    "parameter vectors recorded by the probes are compared bitwise (threading and foreign keys involve no arithmetic)",
    "a first version also demanded bit-identical derived quantities after a rejected HMC move and 'moved flag => parameters changed'; both were "
    "oracle over-reach (HMC re-evaluates the state at the old position; a proposal can round to the current point) and were removed",
]
SHARDS = {"quick": 16, "thorough": 16}
TECHNIQUE = ("Hypothesis-generated kernel sequences around probe wrappers; per-transition invariants on recorded pre/post states; float64 "
             "recomputation of derived nodes; deterministic order-sensitive Gibbs kernels as an order oracle")
LEVEL_TEXT = ("Generated-configuration testing with trace invariants: the state seen and left by every kernel call is recorded through a "
              "transparent wrapper and checked for configured order, state threading, block isolation, exact restoration on rejection and "
              "coherence of all derived quantities with an independent float64 evaluation. Exploration, not proof.")
LEVEL_NOTE = "Trusts the float64 evaluation of the regression model in this file and the transparency of the probe wrapper."


@register_dataclass_as_pytree
@dataclass
class WrapInfo(DefaultTransitionInfo):
    error_code: int
    acceptance_prob: float
    position_moved: int
    pre: dict = None
    post: dict = None

    def minimize(self):
        return DefaultTransitionInfo(self.error_code, self.acceptance_prob, self.position_moved)


class Wrap:
    """transparent probe around a built-in kernel"""

    def __init__(self, inner, watch, ident):
        self.inner, self.watch = inner, list(watch)
        self.position_keys = inner.position_keys
        self.identifier = ident
        inner.identifier = ident
        self.error_book = inner.error_book
        self.needs_history = inner.needs_history

    def set_model(self, m):
        self.inner.set_model(m)

    def has_model(self):
        return self.inner.has_model()

    def init_state(self, k, ms):
        return self.inner.init_state(k, ms)

    def start_epoch(self, *a):
        return self.inner.start_epoch(*a)

    def end_epoch(self, *a):
        return self.inner.end_epoch(*a)

    def tune(self, *a):
        return self.inner.tune(*a)

    def end_warmup(self, *a):
        return self.inner.end_warmup(*a)

    def transition(self, key, ks, ms, epoch):
        model = self.inner.model
        pre = dict(model.extract_position(self.watch, ms))
        out = self.inner.transition(key, ks, ms, epoch)
        post = dict(model.extract_position(self.watch, out.model_state))
        info = WrapInfo(out.info.error_code, jnp.asarray(out.info.acceptance_prob, dtype=jnp.float32), jnp.asarray(out.info.position_moved, dtype=jnp.int32), pre, post)
        return TransitionOutcome(info, out.kernel_state, out.model_state)


# ------------------------------------------------------------------------------ models
N_OBS = 6
DISC_OUT, DISC_P = [0.0, 1.0, 2.0], [0.2, 0.5, 0.3]


def data(seed):
    rng = np.random.default_rng([seed, 9])
    X = np.c_[np.ones(N_OBS), rng.normal(size=N_OBS)].astype(np.float32)
    y = (X @ np.array([0.5, 1.0]) + 0.8 * rng.normal(size=N_OBS)).astype(np.float32)
    xnew = np.array([1.0, 0.3], dtype=np.float32)
    return X, y, xnew


def liesel_model(seed, variant=None):
    """variant (optional dict): weakdist = a weak variable (sigma squared) that carries its own distribution; auto_off = the user's model has
    auto_update switched off when the interface is made; alias = interface through the deprecated lsl.GooseModel"""
    variant = variant or {}
    X, y, xnew = data(seed)
    beta = lsl.param(np.zeros(2, dtype=np.float32), lsl.Dist(tfd.Normal, loc=np.float32(0.0), scale=np.float32(10.0)), name="beta")
    sigma = lsl.param(np.float32(1.0), lsl.Dist(tfd.LogNormal, loc=np.float32(0.0), scale=np.float32(1.0)), name="sigma")
    if variant.get("dep_bij"):
        # bijector class whose argument is itself a sampled quantity: sigma = Softplus_h(t) with h = exp(lh), lh sampled by its own kernel
        lh = lsl.param(np.float32(0.0), lsl.Dist(tfd.Normal, loc=np.float32(0.0), scale=np.float32(0.3)), name="lh")
        hv = lsl.Var(lsl.Calc(lambda v: jnp.exp(jnp.asarray(v)), lh), name="hinge")
        sigma.transform(tfb.Softplus, hinge_softness=hv)
    else:
        sigma.transform(tfb.Exp())
    shift = lsl.param(np.float32(0.0), lsl.Dist(tfd.Normal, loc=np.float32(0.0), scale=np.float32(2.0)), name="shift")
    if variant.get("disc"):
        # a categorical parameter (finite-discrete prior) that shifts the mean; sampled by the library's finite-discrete Gibbs kernel
        z = lsl.param(np.float32(1.0), lsl.Dist(tfd.FiniteDiscrete, outcomes=np.array(DISC_OUT, dtype=np.float32), probs=np.array(DISC_P, dtype=np.float32)), name="z")
        mu = lsl.Var(lsl.Calc(lambda X, b, s, zz: X @ b + s + 0.3 * jnp.asarray(zz, dtype=jnp.float32), lsl.obs(X, name="X"), beta, shift, z), name="mu")
    else:
        mu = lsl.Var(lsl.Calc(lambda X, b, s: X @ b + s, lsl.obs(X, name="X"), beta, shift), name="mu")
    pred = lsl.Var(lsl.Calc(lambda b, s: jnp.dot(xnew, b) + s, beta, shift), name="pred")          # feeds no distribution
    yv = lsl.obs(y, lsl.Dist(tfd.Normal, loc=mu, scale=sigma), name="y")
    extra = []
    if variant.get("weakdist"):
        extra.append(lsl.Var(lsl.Calc(lambda s: jnp.asarray(s) ** 2, sigma), lsl.Dist(tfd.HalfNormal, scale=np.float32(5.0)), name="sigma2"))
    if variant.get("pit"):
        extra.append(lsl.PIT(shift, name="shift_pit"))        # legacy PIT variable: a caching node that is neither Calc nor Dist
    model = lsl.GraphBuilder().add(yv, pred, *extra).build_model()
    if variant.get("auto_off"):
        model.auto_update = False
    params = ["beta", "sigma_transformed", "shift"] + (["z"] if variant.get("disc") else []) + (["lh"] if variant.get("dep_bij") else [])
    derived = ["mu", "sigma", "pred", "_model_log_prob", "_model_log_lik", "_model_log_prior"] + (["shift_pit"] if variant.get("pit") else [])
    return model, params, derived


def make_iface(model, variant=None):
    if (variant or {}).get("alias"):
        import warnings

        with warnings.catch_warnings():
            warnings.simplefilter("ignore")
            return lsl.GooseModel(model)
    return gs.LieselInterface(model)


def recompute(seed, p, variant=None):
    """float64 derived quantities from parameter values p = {beta, sigma_transformed, shift}"""
    X, y, xnew = (a.astype(np.float64) for a in data(seed))
    b, t, s = np.asarray(p["beta"], np.float64), float(p["sigma_transformed"]), float(p["shift"])
    variant = variant or {}
    zc = float(p["z"]) if variant.get("disc") else 0.0
    mu = X @ b + s + 0.3 * zc
    if variant.get("dep_bij"):
        lhv = float(p["lh"])
        h = math.exp(lhv)
        sig = h * float(np.logaddexp(0.0, t / h))
        ljac = -float(np.logaddexp(0.0, -t / h))                     # d sigma / d t = sigmoid(t / h)
    else:
        sig = math.exp(t)
    ll = float(np.sum(sps.norm.logpdf(y, mu, sig)))
    if variant.get("dep_bij"):
        lp_t = float(sps.lognorm.logpdf(sig, 1.0)) + ljac + float(sps.norm.logpdf(lhv, 0, 0.3))
    else:
        lp_t = float(sps.norm.logpdf(t, 0, 1.0))
    lpr = float(np.sum(sps.norm.logpdf(b, 0, 10.0)) + lp_t + sps.norm.logpdf(s, 0, 2.0))
    # a weak variable with a distribution is neither parameter nor observed: its log-density enters the model log-prob only
    extra = float(sps.halfnorm.logpdf(sig ** 2, scale=5.0)) if variant.get("weakdist") else 0.0
    if variant.get("disc"):
        lpr += math.log(DISC_P[DISC_OUT.index(zc)])
    out = {"mu": mu, "sigma": sig, "pred": float(xnew @ b + s), "_model_log_lik": ll, "_model_log_prior": lpr, "_model_log_prob": ll + lpr + extra}
    if variant.get("pit"):
        out["shift_pit"] = float(sps.norm.cdf(s, 0.0, 2.0))
    return out


def dict_model(seed):
    X, y, xnew = data(seed)

    def lp(s):
        mu = jnp.asarray(X) @ s["beta"] + s["shift"]
        return (jnp.sum(-0.5 * ((jnp.asarray(y) - mu) / jnp.exp(s["sigma_transformed"])) ** 2 - s["sigma_transformed"]) - 0.5 * jnp.sum(s["beta"] ** 2) / 100.0
                - 0.5 * s["sigma_transformed"] ** 2 - 0.5 * s["shift"] ** 2 / 4.0)

    return gs.DictInterface(lp), ["beta", "sigma_transformed", "shift"], []


def gen():
    from hypothesis import strategies as st

    @st.composite
    def g(draw):
        blocks = ["beta", "sigma_transformed", "shift"]
        perm = list(draw(st.permutations(blocks)))
        nk = draw(st.integers(2, 3))
        groups = [perm[:1], perm[1:]] if nk == 2 else [[b] for b in perm]
        if nk == 2 and draw(st.booleans()):
            groups = [perm[:2], perm[2:]]
        idents = draw(st.permutations(["zz_first", "mm_middle", "aa_last"]))[:nk]
        ks = [{"keys": grp, "kind": draw(st.sampled_from(["rw", "iwls", "nuts", "hmc", "mh", "gibbs"])), "step": draw(st.sampled_from([0.3, 0.8, 2.0])), "id": idents[i]}
              for i, grp in enumerate(groups)]
        return {"liesel": draw(st.sampled_from([True, True, False])), "kernels": ks, "iters": draw(st.integers(12, 40)), "seed": draw(st.integers(0, 10**6)),
                "epoch": draw(st.sampled_from([1, 3, 4])),
                "variant": {"weakdist": draw(st.booleans()), "auto_off": draw(st.booleans()), "alias": draw(st.integers(0, 2)) == 0,
                            "pit": draw(st.booleans()), "disc": draw(st.booleans()), "dep_bij": draw(st.booleans())},
                "lh_kind": draw(st.sampled_from(["rw", "hmc", "nuts", "mh"]))}

    return g()


def make_inner(k, iface):
    keys, s = k["keys"], k["step"]
    kind = k["kind"]
    if kind == "rw":
        return gs.RWKernel(keys, initial_step_size=s)
    if kind == "iwls":
        return gs.IWLSKernel(keys, initial_step_size=min(s, 1.2))
    if kind == "nuts":
        return gs.NUTSKernel(keys, initial_step_size=0.4 * s, max_treedepth=3)
    if kind == "hmc":
        return gs.HMCKernel(keys, initial_step_size=0.6 * s, num_integration_steps=3)
    if kind == "mh":
        def proposal(key, state, step):
            pos = iface.extract_position(keys, state)
            sub = jax.random.split(key, len(keys))
            return gs.MHProposal({kk: pos[kk] + step * jax.random.normal(sk, jnp.shape(pos[kk])) for kk, sk in zip(keys, sub)}, 0.0)

        return gs.MHKernel(keys, proposal, initial_step_size=s)

    def fn(key, state):
        pos = iface.extract_position(keys, state)
        return {kk: pos[kk] + 0.05 * jax.random.normal(key, jnp.shape(pos[kk])) for kk in keys}

    return gs.GibbsKernel(keys, fn)


def oracle(c):
    det = lambda: f"{c}"  # noqa: E731
    if c["liesel"]:
        model, params, derived = liesel_model(c["seed"], c.get("variant"))
        iface = make_iface(model, c.get("variant"))
        st0 = model.state
    else:
        iface, params, derived = dict_model(c["seed"])
        st0 = {"beta": jnp.zeros(2, dtype=jnp.float32), "sigma_transformed": jnp.float32(0.0), "shift": jnp.float32(0.0)}
    watch = params + derived
    kernels = []
    klist = list(c["kernels"])
    if c["liesel"] and (c.get("variant") or {}).get("dep_bij"):
        # jax.hessian through tfb.Softplus(hinge_softness=<traced value>) inside lax.cond trips an internal JAX assertion (reproduced without
        # liesel): IWLS is not used on the block that contains the transformed variable in this variant
        klist = [dict(k, kind="rw") if (k["kind"] == "iwls" and "sigma_transformed" in k["keys"]) else k for k in klist]
    disc = bool(c["liesel"] and (c.get("variant") or {}).get("disc"))
    if disc:
        klist.append({"keys": ["z"], "kind": "disc_gibbs", "step": 1.0, "id": "dd_disc"})
    if c["liesel"] and (c.get("variant") or {}).get("dep_bij"):
        klist.append({"keys": ["lh"], "kind": c.get("lh_kind", "rw"), "step": 0.3, "id": "hh_hinge"})
    for k in klist:
        if k["kind"] == "disc_gibbs":
            from liesel.model.goose import finite_discrete_gibbs_kernel

            inner = finite_discrete_gibbs_kernel("z", model)
        else:
            inner = make_inner(k, iface)
        w = Wrap(inner, watch, k["id"])
        w.set_model(iface)
        kernels.append(w)
    if disc and not (c.get("variant") or {}).get("auto_off"):
        # start values assigned AFTER the kernels were created (the user's model auto-updates), then the state is taken
        model.vars["shift"].value = np.float32(0.25)
        st0 = model.state
    C = 3
    states = jax.tree_util.tree_map(lambda x: jnp.stack([jnp.asarray(x)] * C), st0)
    T = c["iters"]
    eng = gs.Engine(seeds=jax.random.split(jax.random.PRNGKey(c["seed"]), C), model_states=states, kernel_sequence=KernelSequence(kernels),
                    epoch_configs=[EpochConfig(EpochType.INITIAL_VALUES, 1, 1, None), EpochConfig(EpochType(c["epoch"]), T, 1, None)], jitted_sample_duration=T,
                    model=iface, position_keys=watch, show_progress=False)
    eng.sample_all_epochs()
    res = eng.get_results()
    tis = res.transition_infos.combine_all().unwrap()
    pos = res.get_samples()
    ids = [k["id"] for k in klist]
    require(list(res.get_kernels_by_pos_key().keys()) is not None, "harness", det)
    mixed = False
    for ch in range(C):
        for t in range(T):
            prev_post = None
            outcomes = []
            for j, kid in enumerate(ids):
                ti = tis[kid]
                pre = {k: np.asarray(v)[ch, t] for k, v in ti.pre.items()}
                post = {k: np.asarray(v)[ch, t] for k, v in ti.post.items()}
                own = set(klist[j]["keys"])
                # threading in the configured order
                src = prev_post if prev_post is not None else {k: np.asarray(pos[k])[ch, t] for k in watch}      # stored sample t = state before iteration t+1
                for k in params:
                    require(np.array_equal(pre[k], src[k]), "kernel-does-not-start-from-predecessors-state",
                            lambda: f"chain {ch} iteration {t} kernel #{j} ({kid}, {klist[j]['kind']}): incoming {k}={pre[k].tolist()} but predecessor left {src[k].tolist()}; {det()}")
                # block isolation
                for k in params:
                    if k not in own:
                        require(np.array_equal(post[k], pre[k]), "kernel-changed-foreign-parameter", lambda: f"chain {ch} it {t} kernel {kid}: {k} {pre[k].tolist()} -> {post[k].tolist()}; {det()}")
                moved = int(np.asarray(ti.position_moved)[ch, t])
                changed = any(not np.array_equal(post[k], pre[k]) for k in own)
                if moved == 0:
                    # a rejected move leaves every parameter exactly where it was (derived quantities are covered by the coherence check
                    # below: HMC / NUTS legitimately re-evaluate them, which may differ in the last float32 bit)
                    for k in params:
                        require(np.array_equal(post[k], pre[k], equal_nan=True), "rejected-move-changed-parameters", lambda: f"chain {ch} it {t} kernel {kid}: {k}; {det()}")
                outcomes.append(changed)
                # coherence of derived quantities after this transition
                if derived:
                    exp = recompute(c["seed"], post, c.get("variant"))
                    for k in derived:
                        a, b = np.asarray(post[k], dtype=np.float64), np.asarray(exp[k], dtype=np.float64)
                        tol = 3e-5 * (1 + np.abs(b)) + (3e-5 * (abs(exp["_model_log_lik"]) + abs(exp["_model_log_prior"]) + 50) if k.startswith("_model") else 0)
                        require(a.shape == b.shape and bool(np.all(np.abs(a - b) <= tol)), "derived-quantity-stale-or-wrong:" + ("log-prob" if k.startswith("_model") else k),
                                lambda: f"chain {ch} it {t} after kernel {kid} ({'moved' if changed else 'not moved'}): {k}={a.tolist()} recomputed {b.tolist()}; {det()}")
                prev_post = post
            # the stored sample t+1 is the state after all kernels
            for k in watch:
                require(np.array_equal(np.asarray(pos[k])[ch, t + 1], prev_post[k], equal_nan=True), "stored-sample-is-not-state-after-all-kernels", lambda: f"chain {ch} it {t} {k}; {det()}")
            if any(outcomes) and not all(outcomes):
                mixed = True
    vtag = "+".join(k for k, v in sorted((c.get("variant") or {}).items()) if v) or "plain"
    return {"nt": bool(mixed), "cls": ["liesel" if c["liesel"] else "dict", ("variant:" + vtag) if c["liesel"] else "variant:n/a", "+".join(k["kind"] for k in c["kernels"]), "sorted-ids" if ids == sorted(ids) else "unsorted-ids"],
            "weight": C * T * len(ids)}


# ------------------------------------------------------------------------------ deterministic order oracle
def gen_order():
    from hypothesis import strategies as st

    return st.fixed_dictionaries({"ids": st.permutations(["step_one", "finalize", "again"]), "iters": st.integers(2, 6), "builder": st.booleans(), "seed": st.integers(0, 1000)})


def oracle_order(c):
    iface = gs.DictInterface(lambda s: jnp.float32(0.0))
    ks = [gs.GibbsKernel(["a"], lambda key, s: {"a": s["a"] + 1.0}), gs.GibbsKernel(["b"], lambda key, s: {"b": 10.0 * s["a"] + s["c"]}),
          gs.GibbsKernel(["c"], lambda key, s: {"c": s["b"] - s["a"]})]
    for k, ident in zip(ks, c["ids"]):
        k.identifier = ident
    st0 = {"a": jnp.float32(0.0), "b": jnp.float32(0.0), "c": jnp.float32(0.0)}
    T = c["iters"]
    eps = [EpochConfig(EpochType.INITIAL_VALUES, 1, 1, None), EpochConfig(EpochType.POSTERIOR, T, 1, None)]
    if c["builder"]:
        b = gs.EngineBuilder(seed=c["seed"], num_chains=2)
        b.show_progress = False
        b.set_epochs(eps)
        b.set_model(iface)
        b.set_initial_values(st0)
        for k in ks:
            b.add_kernel(k)
        eng = b.build()
    else:
        for k in ks:
            k.set_model(iface)
        eng = gs.Engine(seeds=jax.random.split(jax.random.PRNGKey(c["seed"]), 2), model_states=jax.tree_util.tree_map(lambda x: jnp.stack([x, x]), st0),
                        kernel_sequence=KernelSequence(ks), epoch_configs=eps, jitted_sample_duration=T, model=iface, position_keys=["a", "b", "c"], show_progress=False)
    eng.sample_all_epochs()
    pos = eng.get_results().get_samples()
    a = b_ = cc = 0.0
    for t in range(1, T + 1):
        a = a + 1.0
        b_ = 10.0 * a + cc
        cc = b_ - a
        got = tuple(float(np.asarray(pos[k])[0, t]) for k in "abc")
        require(got == (a, b_, cc), "kernels-not-run-in-configured-order", lambda: f"iteration {t}: (a, b, c) = {got} expected {(a, b_, cc)} with identifiers {c['ids']}; {c}")
    return {"nt": list(c["ids"]) != sorted(c["ids"]), "cls": ["builder" if c["builder"] else "ctor"]}


# ------------------------------------------------------------------------------ a transition depends only on (key, tuning, model state)
def gen_purity():
    from hypothesis import strategies as st

    return st.fixed_dictionaries({"kind": st.sampled_from(["rw", "iwls", "nuts", "hmc", "mh", "gibbs"]), "keys": st.sampled_from([["beta"], ["shift"], ["beta", "shift"], ["sigma_transformed"]]),
                                  "step": st.sampled_from([0.3, 0.8]), "liesel": st.booleans(), "seed": st.integers(0, 10**6), "n_prev": st.integers(1, 3),
                                  "delta": st.sampled_from([0.5, -1.0, 2.0])})


def oracle_purity(c):
    """Each kernel starts from the model state left by its predecessor: a kernel state initialised (and stepped) on a DIFFERENT model state and one
    initialised on the current model state carry the same tuning, so the same key and model state must give the same transition."""
    from liesel.goose.epoch import EpochConfig as EC

    if c["liesel"]:
        model, params, derived = liesel_model(c["seed"])
        iface = gs.LieselInterface(model)
        st_b = model.state
    else:
        iface, params, derived = dict_model(c["seed"])
        st_b = {"beta": jnp.zeros(2, dtype=jnp.float32), "sigma_transformed": jnp.float32(0.0), "shift": jnp.float32(0.0)}
    others = [p for p in params if p not in c["keys"]]
    # state A differs from state B only in blocks the kernel does NOT own (what a predecessor kernel would have changed)
    pos_b = iface.extract_position(others, st_b)
    st_a = iface.update_state({k: v + jnp.float32(c["delta"]) for k, v in pos_b.items()}, st_b)
    ker = make_inner({"keys": c["keys"], "kind": c["kind"], "step": c["step"]}, iface)
    ker.set_model(iface)
    epoch = EC(EpochType.BURNIN, 10, 1, None).to_state(1, 1)
    key0, key = jax.random.split(jax.random.PRNGKey(c["seed"]))
    # history 1: initialised on A, a few transitions while the other blocks sit at A's values, then the predecessor moves them to B's values
    ks1 = ker.init_state(key0, st_a)
    cur = st_a
    for i in range(c["n_prev"]):
        out = ker.transition(jax.random.fold_in(key0, i), ks1, cur, epoch)
        ks1, cur = out.kernel_state, out.model_state
    own_now = iface.extract_position(c["keys"], cur)
    st_now = iface.update_state(dict(own_now), st_b)                 # own block as left by the kernel, other blocks as left by the "predecessor"
    # history 2: a fresh kernel state initialised directly on that model state
    ks2 = ker.init_state(key0, st_now)
    o1 = ker.transition(key, ks1, st_now, epoch)
    o2 = ker.transition(key, ks2, st_now, epoch)
    from vlib.lz import tree_equal_bits

    p1, p2 = iface.extract_position(params, o1.model_state), iface.extract_position(params, o2.model_state)
    same = tree_equal_bits(dict(p1), dict(p2)) and np.array_equal(np.asarray(o1.info.acceptance_prob), np.asarray(o2.info.acceptance_prob), equal_nan=True)
    require(bool(same), "transition-depends-on-kernel-history-not-on-incoming-state:" + c["kind"],
            lambda: f"same key, same tuning, same incoming model state: positions {jax.tree_util.tree_map(lambda x: np.asarray(x).tolist(), dict(p1))} vs "
                    f"{jax.tree_util.tree_map(lambda x: np.asarray(x).tolist(), dict(p2))}, acceptance {float(o1.info.acceptance_prob)} vs {float(o2.info.acceptance_prob)}; {c}")
    return {"nt": bool(others), "cls": [c["kind"], "liesel" if c["liesel"] else "dict"]}


# ------------------------------------------------------------------------------ library Gibbs kernels read the incoming state, not the build-time model
def gen_gibbs_state():
    from hypothesis import strategies as st

    return st.fixed_dictionaries({"seed": st.integers(0, 10**6), "a": st.sampled_from([0.5, 2.0]), "b0": st.sampled_from([0.5, 1.0]), "b1": st.sampled_from([20.0, 50.0]),
                                  "which": st.sampled_from(["b", "a", "beta"])})


def oracle_gibbs_state(c):
    """a predecessor kernel that owns a hyperparameter (or the coefficients) changes it in the model state; the smoothing-variance Gibbs kernel
    must then draw from the conditional given THAT value (same key: the draw scales with b + beta'K beta / 2)"""
    from liesel.model import DistRegBuilder
    from liesel.model.distreg import tau2_gibbs_kernel

    rng = np.random.default_rng([c["seed"], 99])
    n, d = 6, 4
    D = np.diff(np.eye(d), axis=0)
    K = (D.T @ D).astype(np.float32)
    b = DistRegBuilder()
    b.add_response(rng.normal(size=n).astype(np.float32), tfd.Normal)
    b.add_predictor("loc", tfb.Identity)
    b.add_predictor("scale", tfb.Exp)
    b.add_np_smooth(rng.normal(size=(n, d)).astype(np.float32), K, c["a"], c["b0"], "loc")
    b.add_p_smooth(np.ones((n, 1), dtype=np.float32), 0.0, 10.0, "scale")
    model = b.build_model()
    group = model.groups()["loc_np0"]
    ker = tau2_gibbs_kernel(group)
    iface = gs.LieselInterface(model)
    ker.set_model(iface)
    tname, bname, aname, betaname = group["tau2"].name, group["b"].name, group["a"].name, group["beta"].name
    beta = rng.normal(size=d).astype(np.float32)
    s0 = iface.update_state({betaname: jnp.asarray(beta)}, model.state)
    key = jax.random.PRNGKey(c["seed"])
    quad = float(beta.astype(np.float64) @ K.astype(np.float64) @ beta.astype(np.float64))
    if c["which"] == "b":
        s1 = iface.update_state({bname: jnp.float32(c["b1"])}, s0)
        exp_ratio = (c["b1"] + 0.5 * quad) / (c["b0"] + 0.5 * quad)
    elif c["which"] == "beta":
        s1 = iface.update_state({betaname: jnp.asarray(3.0 * beta)}, s0)
        exp_ratio = (c["b0"] + 4.5 * quad) / (c["b0"] + 0.5 * quad)
    else:
        s1 = iface.update_state({aname: jnp.float32(c["a"] + 3.0)}, s0)
        exp_ratio = None
    d0 = float(ker.transition(key, {}, s0, None).model_state[group["tau2"].value_node.name].value)
    d1 = float(ker.transition(key, {}, s1, None).model_state[group["tau2"].value_node.name].value)
    if exp_ratio is not None:
        require(abs(d1 / d0 - exp_ratio) <= 1e-3 * exp_ratio, "gibbs-kernel-ignores-value-left-by-predecessor:" + c["which"],
                f"same key: draw {d0} with the build-time value, {d1} after a predecessor changed {c['which']} (expected ratio {exp_ratio:.4f}); {c}")
    else:
        require(d1 != d0, "gibbs-kernel-ignores-value-left-by-predecessor:a", f"draws {d0} vs {d1} after the shape hyperparameter changed from {c['a']} to {c['a'] + 3.0}; {c}")
    return {"nt": True, "cls": [c["which"]]}


SUBS = [
    Sub("composition", oracle, gen=gen, n={"quick": 32, "thorough": 500}, shrink_calls=10, min_per_shard=2, what="probe-wrapped built-in kernels: order, threading, isolation, rejection, coherence"),
    Sub("kernel_purity", oracle_purity, gen=gen_purity, n={"quick": 48, "thorough": 600}, shrink_calls=10,
        what="same key + tuning + incoming model state => same transition, whatever the kernel saw before (no model-dependent caches in kernel states)"),
    Sub("gibbs_reads_state", oracle_gibbs_state, gen=gen_gibbs_state, n={"quick": 12, "thorough": 100}, shrink_calls=6,
        what="tau2 Gibbs kernel draws from the conditional given the hyperparameters / coefficients in the incoming state"),
    Sub("order", oracle_order, gen=gen_order, n={"quick": 24, "thorough": 200}, shrink_calls=10, what="deterministic order-sensitive Gibbs kernels with non-alphabetical identifiers"),
]
