"""C15 — Built models are complete, acyclic, uniquely named, frozen, and round-trip.

Sub-oracles over generated graphs (vlib.graphgen incl. groups, seeded nodes, unnamed nodes, shared inputs)
  structure   completeness (node count predicted from the spec, closure under inputs), unique non-empty names, outputs = exact
              inverse of inputs, every member points to its model, broken variants (duplicate node / var / group names, reserved
              names, cycles) are rejected
  histories   op-lists over: mutate-attempt (every no_model_method / no_model_setter entry point, Var.transform, building a second
              model that contains a member of a live one), assignment, and round-trips (build(copy=True), pop -> rebuild,
              copy -> rebuild, deepcopy, save / load via BytesIO and path).  After every step: rejected mutations left a structural
              snapshot unchanged, all live models have identical state, an assignment keeps every model coherent (C01 oracle),
              models are independent of each other.
"""
from __future__ import annotations

import copy
import io
import os
import tempfile

import numpy as np

from checks.c01_cache import check_coherent, eq_exact
from vlib import graphgen as gg
from vlib.lz import jax, jnp, lsl, tfd
from vlib.runner import Sub, Violation, require, VERIF_DIR

PROPERTY = "C15"
RULE = ("cases = (graph spec with groups / seeded / unnamed nodes / shared inputs, op-list over mutate-attempts, second-build attempts, "
        "assignments and the six round-trip kinds); non-trivial = graph with a shared input and (a group or a seeded node), history with a "
        "rejected mutation followed by an assignment and >= 1 round-trip; auto_names: (k unnamed nodes, kv unnamed variables, 1-4 pop / copy / copy-build passes each adding 0-3 unnamed nodes and 0-2 unnamed variables), non-trivial = >= 11 automatic names; distinct = SHA-1 of (spec, ops)")
ASSUMPTIONS = [
    "a rejection is any exception; for frozen-member mutations the documented RuntimeError is required",
    "rebuilt models re-create their seed nodes with the default key, and Model.set_seed hands sub-keys out in an internal node order: seeded "
    "values are compared after assigning every seed node a key derived from its own name on both sides",
    "node functions are integer-affine (exact), so states are compared exactly (NaN == NaN); only the model's own _model_log_* totals are "
    "compared with rtol 2e-6 because the summation order of distribution nodes is an implementation detail (a first version demanded "
    "bitwise equality there and raised a false alarm on a 1-ulp difference after pop -> rebuild)",
]
SHARDS = {"quick": 16, "thorough": 16}
TECHNIQUE = ("Hypothesis-generated graphs and operation histories (build / pop / copy / save / load / mutate-attempt / assign); structural "
             "invariants computed independently from the spec; snapshot comparison around rejected mutations; C01 coherence oracle after "
             "assignments; state equality and independence across round-tripped models")
LEVEL_TEXT = ("Model-based stateful testing of the graph builder and model container: structural invariants after every step, every "
              "documented frozen entry point attacked on members of a live model with a before/after snapshot plus a behavioural probe "
              "(assignment + cache coherence) to expose silent damage, and all round-trip paths compared by state and behaviour. "
              "Exploration, not proof.")
LEVEL_NOTE = "Trusts the node-count formula and snapshot function in this file and the C01 naive evaluator."

NODE_COUNT = {"value": 1, "svar": 2, "calc": 1, "tcalc": 1, "tident": 1, "wvar": 2, "igcalc": 2, "scalc": 2, "unode": 1, "pitvar": 2}


_EXTRA = {"n": 0}    # nodes the current case adds besides the declarations (user-defined log-likelihood node)


def expected_nodes(spec):
    n = 3 + _EXTRA["n"]  # _model_log_lik / _model_log_prior / _model_log_prob
    for d in spec:
        k = d["kind"]
        if k == "dvar":
            n += 3 + 1 + (0 if d["inputs"] else 1)       # value, var_value, dist + scale const (+ loc const)
        elif k == "wdvar":
            n += 3 + 1                                    # calc, var_value, dist + scale const
        else:
            n += NODE_COUNT[k]
    return n


def node_inputs(n):
    ins = list(n.inputs) + list(n.kwinputs.values())
    at = getattr(n, "at", None)
    if at is not None and at not in ins:
        ins.append(at)
    return ins


def check_structure(model, spec, tag, det):
    nodes = list(model.nodes.values())
    names = [n.name for n in nodes]
    require(all(names) and len(set(names)) == len(names) and list(model.nodes.keys()) == names, tag + "node-names-not-unique-nonempty", det)
    vnames = [v.name for v in model.vars.values()]
    require(all(vnames) and len(set(vnames)) == len(vnames) and list(model.vars.keys()) == vnames, tag + "var-names-not-unique-nonempty", det)
    ids = {id(n) for n in nodes}
    require(len(ids) == len(nodes), tag + "node-contained-twice", det)
    if spec is not None:
        require(len(nodes) == expected_nodes(spec), tag + "node-count-not-closure-of-inputs",
                lambda: f"{len(nodes)} nodes, expected {expected_nodes(spec)}: {sorted(names)}; {det()}")
        nv = sum(1 for d in spec if d["kind"] in gg.VAR_KINDS)
        require(len(model.vars) == nv, tag + "var-count", lambda: f"{len(model.vars)} vars expected {nv}; {det()}")
    inv = {id(n): [] for n in nodes}
    for n in nodes:
        require(n.model is model, tag + "member-does-not-point-to-model", lambda: f"{n.name}; {det()}")
        for i in node_inputs(n):
            require(id(i) in ids, tag + "input-not-in-model", lambda: f"{n.name} <- {i.name}; {det()}")
            if n not in inv[id(i)]:
                inv[id(i)].append(n)
    for n in nodes:
        got = {id(o) for o in n.outputs}
        exp = {id(o) for o in inv[id(n)]}
        require(got == exp and len(n.outputs) == len(got), tag + "outputs-not-inverse-of-inputs",
                lambda: f"{n.name}: outputs {[o.name for o in n.outputs]} expected {[o.name for o in inv[id(n)]]}; {det()}")
    for v in model.vars.values():
        require(v.model is model and v.value_node.name in model.nodes and v.var_value_node.name in model.nodes, tag + "var-nodes-not-in-model", det)


def snapshot(model):
    out = {}
    for n in model.nodes.values():
        out["n:" + n.name] = (id(n), n.name, n.needs_seed, tuple(id(i) for i in n.inputs), tuple((k, id(v)) for k, v in n.kwinputs.items()),
                              tuple(id(o) for o in n.outputs), id(getattr(n, "function", None)) if hasattr(n, "_function") else None,
                              id(getattr(n, "distribution", None)) if hasattr(n, "_distribution") else None,
                              id(getattr(n, "at", None)) if hasattr(n, "_at") else None, getattr(n, "per_obs", None), id(n.var) if n.var else None,
                              tuple(sorted(n.groups)))
    for v in model.vars.values():
        out["v:" + v.name] = (id(v), v.name, v.observed, v.parameter, id(v.value_node), id(v._dist_node), id(v.var_value_node), v.strong, tuple(sorted(v.groups)))
    return out


def state_equal(a, b):
    if set(a) != set(b):
        return f"node names differ: {sorted(set(a) ^ set(b))}"
    for k in a:
        if bool(a[k].outdated) != bool(b[k].outdated):
            return f"outdated flag of {k}"
        va, vb = a[k].value, b[k].value
        if (va is None) != (vb is None):
            return f"value of {k}: {va} vs {vb}"
        if va is not None:
            la, lb = jax.tree_util.tree_leaves(va), jax.tree_util.tree_leaves(vb)
            if k.startswith("_model_log_"):
                # the model's own totals: the order in which distribution nodes are summed is an implementation detail
                ok = len(la) == len(lb) and all(np.allclose(np.asarray(x, np.float64), np.asarray(y, np.float64), rtol=2e-6, atol=1e-6, equal_nan=True) for x, y in zip(la, lb))
            else:
                ok = len(la) == len(lb) and all(eq_exact(x, y) for x, y in zip(la, lb))
            if not ok:
                return f"value of {k}: {va} vs {vb}"
    return None


MUTATIONS = ["set_inputs", "add_inputs", "node_name", "needs_seed", "function", "distribution", "at", "per_obs",
             "value_node", "dist_node", "var_name", "var_name", "var_name_empty", "observed", "parameter", "transform"]


def attempt(model, which, pick):
    """Try one structural mutation on a member of `model`; returns (applicable, exception-or-None)."""
    nodes, vars_ = list(model.nodes.values()), list(model.vars.values())
    calcs = [n for n in nodes if isinstance(n, lsl.Calc)]
    dists = [n for n in nodes if isinstance(n, lsl.Dist)]
    n = nodes[pick % len(nodes)]
    try:
        if which == "set_inputs":
            n.set_inputs(lsl.Value(1.0))
        elif which == "add_inputs":
            n.add_inputs(lsl.Value(1.0), extra=lsl.Value(2.0))
        elif which == "node_name":
            n.name = "renamed"
        elif which == "needs_seed":
            n.needs_seed = not n.needs_seed
        elif which == "function":
            if not calcs:
                return False, None
            calcs[pick % len(calcs)].function = lambda *a, **k: 0.0
        elif which in ("distribution", "at", "per_obs"):
            if not dists:
                return False, None
            d = dists[pick % len(dists)]
            if which == "distribution":
                d.distribution = tfd.Laplace
            elif which == "at":
                d.at = None
            else:
                d.per_obs = not d.per_obs
        else:
            if not vars_:
                return False, None
            v = vars_[pick % len(vars_)]
            if which == "value_node":
                v.value_node = lsl.Value(3.0)
            elif which == "dist_node":
                v.dist_node = lsl.Dist(tfd.Normal, loc=0.0, scale=1.0)
            elif which == "var_name":
                v.name = "renamed_var"
            elif which == "var_name_empty":
                v.name = ""
            elif which == "observed":
                v.observed = not v.observed
            elif which == "parameter":
                v.parameter = not v.parameter
            elif which == "transform":
                if not (v.strong and v.has_dist):
                    return False, None
                import tensorflow_probability.substrates.jax.bijectors as tfb

                v.transform(tfb.Exp())
    except Exception as e:  # noqa: BLE001
        return True, e
    return True, None


def gen():
    from hypothesis import strategies as st

    op = st.one_of(
        st.tuples(st.just("mutate"), st.sampled_from(MUTATIONS), st.integers(0, 60)),
        st.tuples(st.just("mutate"), st.sampled_from(MUTATIONS), st.integers(0, 60)),
        st.tuples(st.just("second_build"), st.integers(0, 60)),
        st.tuples(st.just("assign"), st.integers(0, 50), st.integers(0, 40)),
        st.tuples(st.just("assign"), st.integers(0, 50), st.integers(0, 40)),
        st.tuples(st.just("roundtrip"), st.sampled_from(["deepcopy", "copy_rebuild", "pop_rebuild", "saveload_bytes", "saveload_path"])),
        st.tuples(st.just("seed"), st.integers(0, 100)),
        st.tuples(st.just("drop_rebuild_subset"), st.integers(0, 60), st.booleans()),
    ).map(list)
    return st.fixed_dictionaries({"spec": gg.spec_strategy(min_nodes=3, max_nodes=10, allow_groups=True, allow_own_key=True), "build_copy": st.booleans(),
                                  "roots_only": st.booleans(), "ops": st.lists(op, min_size=1, max_size=12),
                                  "entry": st.sampled_from(["builder", "builder", "model"]), "user_ll": st.booleans()})


def rebuild(nodes, vars_, entry="builder"):
    if "user_ll" in nodes:
        gb = lsl.GraphBuilder().add(*nodes.values(), *vars_.values())
        gb.log_lik_node = nodes["user_ll"]                           # the user designates the node again, as for the first build
        return gb.build_model()
    if entry == "model":
        return lsl.Model([*nodes.values(), *vars_.values()])        # the documented shortcut: Model(...) grows the graph itself
    return lsl.GraphBuilder().add(*nodes.values(), *vars_.values()).build_model()


def oracle(case):
    spec, ops = case["spec"], case["ops"]
    det = lambda: f"spec={spec} build_copy={case['build_copy']} ops={ops}"  # noqa: E731
    b = gg.Built(spec)
    models = []
    user_ll = bool(case.get("user_ll")) and not (case.get("entry") == "model" and not b.groups and not case["build_copy"])
    _EXTRA["n"] = 1 if user_ll else 0

    def designate(gb):
        if user_ll:
            # a user-defined log-likelihood node (GraphBuilder.log_lik_node): forwarded by _model_log_lik in every model built from this builder
            gb.log_lik_node = lsl.Calc(lambda x: -jnp.sum(jnp.asarray(x, dtype=jnp.float32) ** 2), b.objs[0], _name="user_ll")
        return gb

    used_as_input = {r for d in spec for r, _ in d["inputs"]}
    roots = [o for i, o in enumerate(b.objs) if i not in used_as_input] if case.get("roots_only") else list(b.objs)
    if case["build_copy"]:
        gb = designate(lsl.GraphBuilder().add(*roots))
        if b.groups:
            gb.add_groups(*b.groups.values())
        m_copy = gb.build_model(copy=True)
        check_structure(m_copy, spec, "build(copy=True):", det)
        require(all(o.model is None for o in b.objs if isinstance(o, lsl.Node)), "build(copy=True)-captured-original-nodes", det)
        # the builder is still usable: building again gives an identical, independent model
        m = gb.build_model()
        b.model = m
        models = [m, m_copy]
    elif case.get("entry") == "model" and not b.groups:
        m = lsl.Model(roots)
        b.model = m
        models = [m]
    else:
        gb = designate(lsl.GraphBuilder().add(*roots))
        if b.groups:
            gb.add_groups(*b.groups.values())
        m = gb.build_model()
        b.model = m
        models = [m]
    grouped_members = {i for i, d in enumerate(spec) if d.get("group")}
    complete = not case.get("roots_only") or True
    check_structure(models[0], spec, "build:", det)
    sources = b.sources()
    has_seed = any(d["kind"] == "scalc" for d in spec)
    n_rej_then_assign, rejected_pending, n_round = 0, False, 0
    def seed_all(k):
        """give every seed node a key derived from its own name (Model.set_seed hands sub-keys out in an internal node order)"""
        for mm in models:
            for name in sorted(n for n in mm.nodes if n.startswith("_model_") and n.endswith("_seed")):
                h = int.from_bytes(name.encode(), "little") % 9973
                mm.nodes[name].value = jax.random.PRNGKey(h + k)

    if has_seed:
        seed_all(0)

    def all_equal(tag):
        for mm in models[1:]:
            diff = state_equal(models[0].state, mm.state)
            require(diff is None, tag, lambda: f"{diff}; {det()}")

    all_equal("build(copy=True)-state-differs")
    for step, op in enumerate(ops):
        kind = op[0]
        m0 = models[0]
        if kind == "mutate":
            tgt = models[op[2] % len(models)]
            before, st_before = snapshot(tgt), tgt.state
            applicable, exc = attempt(tgt, op[1], op[2])
            if not applicable:
                continue
            require(exc is not None, "mutation-of-model-member-accepted:" + op[1], lambda: f"step {step}; {det()}")
            require(isinstance(exc, RuntimeError), "mutation-rejected-with-wrong-exception:" + op[1], lambda: f"step {step}: {type(exc).__name__}: {exc}; {det()}")
            require(snapshot(tgt) == before, "rejected-mutation-changed-structure:" + op[1],
                    lambda: f"step {step}: changed {[k for k in before if snapshot(tgt).get(k) != before[k]]}; {det()}")
            require(state_equal(st_before, tgt.state) is None, "rejected-mutation-changed-state:" + op[1], lambda: f"step {step}; {det()}")
            rejected_pending = True
        elif kind == "second_build":
            tgt = models[op[1] % len(models)]
            members = list(tgt.nodes.values()) + list(tgt.vars.values())
            pick = members[op[1] % len(members)]
            before, st_before = snapshot(tgt), tgt.state
            try:
                lsl.GraphBuilder().add(pick).build_model()
                raised = False
            except Exception:  # noqa: BLE001
                raised = True
            require(raised, "second-model-with-member-of-live-model-accepted", lambda: f"step {step}: {pick}; {det()}")
            require(snapshot(tgt) == before, "rejected-second-build-changed-structure",
                    lambda: f"step {step}: after the rejected build of {pick}, changed {[k for k in before if snapshot(tgt).get(k) != before[k]]}; {det()}")
            require(state_equal(st_before, tgt.state) is None, "rejected-second-build-changed-state", lambda: f"step {step}; {det()}")
            rejected_pending = True
        elif kind == "assign":
            s = sources[op[1] % len(sources)]
            val = gg._val(spec[s], op[2])
            name = b.value_node(s).name
            if op[2] % 3 == 0:
                # same assignment with auto-update off followed by a targeted update of one node: its ancestors must be
                # evaluated in topological order (coherence of everything that reports itself up to date), then a full update
                for mm in models:
                    names_all = sorted(mm.nodes)
                    tgt_name = names_all[(op[1] * 7 + op[2]) % len(names_all)]
                    mm.auto_update = False
                    mm.nodes[name].value = val
                    mm.update(tgt_name)
                    check_coherent(b, mm, "after-targeted-update:", lambda: f"step {step} target {tgt_name}; {det()}")
                    mm.update()
                    mm.auto_update = True
            for mm in models:
                mm.nodes[name].value = val
            for mm in models:
                check_coherent(b, mm, "after-assignment:", lambda: f"step {step}; {det()}")
                require(not any(n.outdated for n in mm.nodes.values()), "after-assignment:outdated-node", lambda: f"step {step}; {det()}")
            all_equal("models-diverge-after-same-assignment")
            if len(models) > 1:
                # independence: change only the last model and back
                other = gg._val(spec[s], op[2] + 1)
                st0 = models[0].state
                models[-1].nodes[name].value = other
                require(state_equal(st0, models[0].state) is None, "models-not-independent", lambda: f"step {step}; {det()}")
                models[-1].nodes[name].value = val
            if rejected_pending:
                n_rej_then_assign += 1
                rejected_pending = False
        elif kind == "seed":
            if has_seed:
                seed_all(op[1])
                all_equal("models-diverge-after-same-seeds")
        elif kind == "roundtrip":
            how = op[1]
            n_round += 1
            st_src = m0.state
            if how == "deepcopy":
                new = copy.deepcopy(m0)
            elif how == "copy_rebuild":
                nodes, vars_ = m0.copy_nodes_and_vars()
                new = rebuild(nodes, vars_, case.get("entry", "builder"))
            elif how == "pop_rebuild":
                nodes, vars_ = m0.pop_nodes_and_vars()
                require(len(m0.nodes) == 0 and len(m0.vars) == 0, "pop-left-members-in-model", det)
                require(all(n.model is None for n in nodes.values()), "pop-left-model-reference", det)
                new = rebuild(nodes, vars_, case.get("entry", "builder"))
                models[0] = new
                b.model = new
            else:
                if how == "saveload_bytes":
                    buf = io.BytesIO()
                    lsl.save_model(m0, buf)
                    buf.seek(0)
                    new = lsl.load_model(buf)
                else:
                    d = os.path.join(VERIF_DIR, ".work", "c15")
                    os.makedirs(d, exist_ok=True)
                    fd, path = tempfile.mkstemp(suffix=".pkl", dir=d)
                    os.close(fd)
                    try:
                        lsl.save_model(m0, path)
                        new = lsl.load_model(path)
                    finally:
                        os.unlink(path)
            check_structure(new, spec, f"{how}:", det)
            if has_seed and how in ("copy_rebuild", "pop_rebuild"):
                keep = list(models)
                models.append(new)
                seed_all(7)
                models[:] = keep
                st_src = models[0].state
            diff = state_equal(st_src, new.state)
            require(diff is None, f"{how}:state-differs", lambda: f"step {step}: {diff}; {det()}")
            if how != "pop_rebuild":
                shared = {id(n) for n in m0.nodes.values()} & {id(n) for n in new.nodes.values()}
                require(not shared, f"{how}:shares-node-objects", lambda: f"step {step}; {det()}")
                if len(models) < 4:
                    models.append(new)
        elif kind == "drop_rebuild_subset":
            # the live models are dropped without popping (nodes hold weak references only); part of the graph is re-used
            import gc

            if has_seed:
                continue  # a model that is dropped without pop keeps its injected seed inputs: outside the listed operations
            sub = b.objs[op[1] % len(b.objs)]
            if op[2]:
                # a rejected (cyclic) build first; then the cycle is repaired and the graph built
                cyc = lsl.Calc(lambda x: x, sub, _name="cyc_a", update_on_init=False)
                cyc2 = lsl.Calc(lambda x: x, cyc, _name="cyc_b", update_on_init=False)
            models.clear()
            b.model = None
            m = m0 = tgt = None
            del m, m0, tgt
            gc.collect()
            if any((o.model is not None) for o in b.objs):
                break  # something else still holds the model alive: nothing to test
            if op[2]:
                cyc.set_inputs(cyc2)
                try:
                    lsl.GraphBuilder().add(cyc2).build_model()
                    raise Violation("broken-graph-accepted:cycle", det())
                except Violation:
                    raise
                except Exception:  # noqa: BLE001
                    pass
                cyc.set_inputs(sub)
                newm = lsl.GraphBuilder().add(cyc2).build_model()
            else:
                newm = lsl.GraphBuilder().add(sub).build_model()
            check_structure(newm, None, "reuse-after-drop:", lambda: f"step {step} {op}; {det()}")
            n_round += 1
            break
        for mm in models:
            check_structure(mm, spec, "", lambda: f"after step {step} {op}; {det()}")
    # shared input: some declaration used as input by >= 2 others
    used = {}
    for d in spec:
        for r, _ in d["inputs"]:
            used[r] = used.get(r, 0) + 1
    shared_in = any(v >= 2 for v in used.values())
    grouped = any(d.get("group") for d in spec)
    nt = shared_in and (grouped or has_seed) and n_rej_then_assign >= 1 and n_round >= 1
    cls = ["shared" if shared_in else "noshared", "group" if grouped else "nogroup", "seeded" if has_seed else "noseed",
           "rej+assign" if n_rej_then_assign else "no-rej+assign", f"roundtrips{min(n_round, 3)}", "build_copy" if case["build_copy"] else "build"]
    return {"nt": bool(nt), "cls": cls}


# ------------------------------------------------------------------------------ broken variants must be rejected
def gen_broken():
    from hypothesis import strategies as st

    return st.fixed_dictionaries({"spec": gg.spec_strategy(min_nodes=3, max_nodes=8), "how": st.sampled_from(["dup_node", "dup_var", "dup_var_renamed", "dup_group", "reserved", "cycle", "cycle_self"]),
                                  "a": st.integers(0, 30), "b": st.integers(0, 30)})


def oracle_broken(case):
    spec, how = case["spec"], case["how"]
    b = gg.Built(spec)
    det = lambda: f"{case}"  # noqa: E731
    objs = list(b.objs)
    nodes = [o for o in objs if isinstance(o, lsl.Node)]
    vars_ = [o for o in objs if isinstance(o, lsl.Var)]
    extra = []
    if how == "dup_node":
        named = [n for n in nodes if n.name] or None
        tgt = named[case["a"] % len(named)].name if named else "dupname"
        extra = [lsl.Value(1.0, _name=tgt)] + ([] if named else [lsl.Value(2.0, _name=tgt)])
    elif how == "dup_var":
        tgt = vars_[case["a"] % len(vars_)].name if vars_ else "dupvar"
        extra = [lsl.Var(1.0, name=tgt)] + ([] if vars_ else [lsl.Var(2.0, name=tgt)])
    elif how == "dup_var_renamed":
        # two different variables end up with the same name although all their NODE names differ: a variable whose value node has a
        # user-chosen name is renamed (the rename then leaves its node names alone)
        tgt = vars_[case["a"] % len(vars_)].name if vars_ else "dupvar"
        v = lsl.Var(lsl.Calc(lambda x: x, 1.0, _name="renamed_inner_calc"), name="renamed_tmp")
        v.name = tgt
        extra = [v] + ([] if vars_ else [lsl.Var(2.0, name=tgt)])
        names_all = [n.name for o in extra for n in ([o.value_node, o.var_value_node] if isinstance(o, lsl.Var) else [o])]
        if len(set(names_all)) != len(names_all):
            raise RuntimeError("harness: dup_var_renamed scenario has clashing node names")
    elif how == "dup_group":
        g1 = lsl.Group("samegroup", m=lsl.Value(1.0, _name="g_a"))
        g2 = lsl.Group("samegroup", m=lsl.Value(2.0, _name="g_b"))
        extra = list(g1.nodes.values()) + list(g2.nodes.values())
    elif how == "reserved":
        extra = [lsl.Value(1.0, _name="_model_" + ("log_prob" if case["a"] % 2 else "custom"))]
    elif how == "cycle":
        c1 = lsl.Calc(lambda x: x, 0.0, _name="cyc1", update_on_init=False)
        c2 = lsl.Calc(lambda x: x, c1, _name="cyc2", update_on_init=False)
        c1.set_inputs(c2)
        extra = [c2]
    else:
        c1 = lsl.Calc(lambda x: x, 0.0, _name="selfcyc", update_on_init=False)
        c1.set_inputs(c1)
        extra = [c1]
    try:
        lsl.GraphBuilder().add(*objs, *extra).build_model()
        raised = False
    except RecursionError:
        raised = True
    except Exception:  # noqa: BLE001
        raised = True
    require(raised, "broken-graph-accepted:" + how, det)
    return {"nt": True, "cls": [how]}


# ------------------------------------------------------------------------------ automatic names over several naming passes
def gen_names():
    from hypothesis import strategies as st

    return st.fixed_dictionaries({"k": st.integers(0, 14), "kv": st.integers(0, 12), "passes": st.lists(st.tuples(st.sampled_from(["pop", "copy", "build_copy"]), st.integers(0, 3), st.integers(0, 2)),
                                                                                                     min_size=1, max_size=4)})


def oracle_names(case):
    """k unnamed literal nodes and kv unnamed variables get automatic names; after each pop / copy (or copy-build) new unnamed nodes / variables are
    added and the graph is built again: every valid graph must build, with unique non-empty names and every object contained exactly once"""
    det = lambda: f"{case}"  # noqa: E731
    root = lsl.Calc(lambda *a: sum(jnp.asarray(x, dtype=jnp.float32) for x in a) if a else jnp.float32(0.0), *[float(i) for i in range(case["k"])], _name="lits")
    vs = [lsl.Var(np.float32(i)) for i in range(case["kv"])]
    top = lsl.Calc(lambda r, *v: jnp.asarray(r) + sum(jnp.asarray(x) for x in v) if v else jnp.asarray(r), root, *vs, _name="top")
    n_nodes, n_vars = 3 + 2 + case["k"] + 2 * case["kv"], case["kv"]
    gb = lsl.GraphBuilder().add(top)
    model = gb.build_model()
    objs = [top]
    for step, (route, new_nodes, new_vars) in enumerate(case["passes"]):
        tag = f"pass {step} ({route}, +{new_nodes} nodes, +{new_vars} vars): "
        if route == "pop":
            nodes, vars_ = model.pop_nodes_and_vars()
        elif route == "copy":
            nodes, vars_ = model.copy_nodes_and_vars()
        else:
            nodes, vars_ = dict(model.nodes), dict(model.vars)
            nodes = {k: v for k, v in nodes.items() if not k.startswith("_model")}
        base = nodes["top"]
        adds = [lsl.Calc(lambda x: jnp.asarray(x) * 1.0, base) for _ in range(new_nodes)] + [lsl.Var(lsl.Calc(lambda x: jnp.asarray(x) + 1.0, base)) for _ in range(new_vars)]
        n_nodes += new_nodes + 2 * new_vars
        n_vars += new_vars
        gb = lsl.GraphBuilder().add(*nodes.values(), *vars_.values(), *adds)
        try:
            if route == "build_copy":
                model.pop_nodes_and_vars()
                new = gb.build_model(copy=True)      # the next pass continues with this independent copy
            else:
                new = gb.build_model()
        except Exception as e:  # noqa: BLE001
            raise Violation("valid-graph-rejected-after-renaming-pass", f"{tag}{type(e).__name__}: {e}; {det()}")
        names = [n.name for n in new.nodes.values()]
        require(all(names) and len(set(names)) == len(names), "auto-names-not-unique-nonempty", lambda: f"{tag}{sorted(names)}; {det()}")
        vn = [v.name for v in new.vars.values()]
        require(all(vn) and len(set(vn)) == len(vn), "auto-var-names-not-unique-nonempty", lambda: f"{tag}{sorted(vn)}; {det()}")
        require(len(names) == n_nodes and len(vn) == n_vars, "node-count-not-closure-of-inputs", lambda: f"{tag}{len(names)} nodes / {len(vn)} vars, expected {n_nodes} / {n_vars}; {det()}")
        model = new
    return {"nt": case["k"] + case["kv"] >= 11, "cls": [f"unnamed>={10 if case['k'] + case['kv'] >= 11 else 0}", *sorted({r for r, _, _ in case["passes"]})]}


SUBS = [
    Sub("histories", oracle, gen=gen, n={"quick": 1600, "thorough": 30000}, shrink_calls=120,
        what="structure invariants, frozen entry points, second-build attempts, round-trips, assignments"),
    Sub("broken", oracle_broken, gen=gen_broken, n={"quick": 120, "thorough": 2000}, what="duplicate names / reserved names / cycles are rejected"),
    Sub("auto_names", oracle_names, gen=gen_names, n={"quick": 200, "thorough": 4000}, shrink_calls=40,
        what="automatic names stay unique over several pop / copy / copy-build passes that add new unnamed nodes and variables"),
]
