"""C17 — simulate() draws a joint ancestral sample.

Sub-oracles
  ancestral   hierarchies whose children are tightly concentrated (scale 1e-3) around g(parent) with wide parents, parents feeding
              children directly or through cached / transient / weak-variable / bare intermediate calculations, both auto_update
              settings, skip sets (by variable, distribution-node and value-node name), value shapes (), (5,), (3,4) and batch-shaped
              parameters: after simulate() every non-skipped child must sit at g(NEW parent); shapes preserved; skipped variables
              bit-unchanged; same seed => identical, other seed => different; after update() the model is coherent (log_prob equals
              the float64 oracle at the simulated values)
  pit         generic families (vlib.modelgen specs): over 1024 seeds the PIT of each drawn variable under its distribution at the NEW
              ancestor values is uniform (statistical, with confirmation)
"""
from __future__ import annotations

import math

import numpy as np
from scipy import stats as sps

from vlib import modelgen as mg
from vlib import stats
from vlib.lz import jax, jnp, lsl, tfb, tfd
from vlib.runner import Sub, Violation, require

PROPERTY = "C17"
RULE = ("ancestral: chains of 2-4 normal variables (wide root, children with scale 1e-3 around g(parent)), link kinds direct / cached calc / "
        "transient calc / weak variable / bare calc, value shapes (), (5,), (3,4) with scalar or batch-shaped parents, skip sets, both "
        "auto_update settings, seeds; children optionally transformed through the bijector-class path, integer-typed placeholder on the leaf, model out of date on entry; cross_process: the same case in child interpreters with other hash seeds; pit: modelgen specs with continuous families. Non-trivial = depth >= 2 through a cached intermediate "
        "with auto-update off, or a non-empty skip set; distinct = SHA-1 of the case")
ASSUMPTIONS = [
    "tight children: |child - g(new parent)| < 8 sd = 8e-3 (scaled by the value magnitude for float32 rounding) must hold; a stale read misses by O(parent sd = 50)",
    "bare Dist nodes without a variable are not simulated by design (documented behaviour) and are not generated here",
    "pit sub-oracle is statistical: |z| > 6 then three confirmations at 4N with |z| > 4",
]
SHARDS = {"quick": 16, "thorough": 16}
TECHNIQUE = ("Hypothesis-generated hierarchical models, skip sets, shapes and auto-update settings; deterministic concentration oracle "
             "(children pinned to g(new parent)), metamorphic seed / skip relations, KS tests of PIT values under the new ancestor values")
LEVEL_TEXT = ("Generated-program testing with a decisive deterministic oracle (a child with tiny variance must sit at the transformed NEW "
              "value of its parent, whichever way the parent reaches it and whatever the auto-update setting), metamorphic relations for "
              "seeds, shapes and skip sets, a coherence check after update(), and a statistical PIT check for generic families. Exploration.")
LEVEL_NOTE = "Trusts numpy closed forms of the link functions g and scipy.stats cdfs."

G = {"id": (lambda x: x, lambda x: x), "half": (lambda x: 0.5 * x + 1.0, lambda x: 0.5 * jnp.asarray(x) + 1.0),
     "neg": (lambda x: -x, lambda x: -jnp.asarray(x))}


def gen():
    from hypothesis import strategies as st

    @st.composite
    def g(draw):
        depth = draw(st.integers(2, 4))
        shape = draw(st.sampled_from(["scalar", "vec5", "mat34", "batch4"]))
        links = [{"g": draw(st.sampled_from(sorted(G))), "via": draw(st.sampled_from(["direct", "calc", "calc", "tcalc", "wvar", "bare", "chain_kw", "chain_pos"]))} for _ in range(depth - 1)]
        names = [f"v{i}" for i in range(depth)]
        skip_kind = draw(st.sampled_from(["none", "none", "var", "dist", "value"]))
        skip_idx = draw(st.integers(0, depth - 1))
        return {"depth": depth, "shape": shape, "links": links, "auto_update": draw(st.booleans()), "seed": draw(st.integers(0, 2**20)),
                "skip_kind": skip_kind, "skip_idx": skip_idx, "observed_leaf": draw(st.booleans()), "extra_branch": draw(st.booleans()), "int_leaf": draw(st.integers(0, 3)) == 0,
                # children transformed through the bijector-class path (v = 2 t, t unconstrained); transformed variables added to the builder first
                "transformed": [draw(st.integers(0, 3)) == 0 for _ in range(depth)], "t_first": draw(st.booleans()),
                # the model is out of date when simulate() is entered: a hyperparameter was assigned with auto-update off and auto-update restored without update()
                "stale_entry": draw(st.integers(0, 3)) == 0}

    return g()


def build(c):
    shp = {"scalar": (), "vec5": (5,), "mat34": (3, 4), "batch4": (4,)}[c["shape"]]
    child_shape = (3, 4) if c["shape"] == "batch4" else shp
    vs = []
    if c.get("stale_entry"):
        hyper = lsl.Var(np.float32(0.0), name="h")
        root = lsl.param(np.zeros(shp, dtype=np.float32) + 1.0, lsl.Dist(tfd.Normal, loc=lsl.Calc(lambda h: 10.0 * jnp.asarray(h), hyper, _name="root_loc"), scale=np.float32(1e-3)), name="v0")
    else:
        root = lsl.param(np.zeros(shp, dtype=np.float32) + 1.0, lsl.Dist(tfd.Normal, loc=np.float32(0.0), scale=np.float32(50.0)), name="v0")
    vs.append(root)
    tvars = []
    for i, ln in enumerate(c["links"], start=1):
        parent = vs[-1]
        fn = G[ln["g"]][1]
        if ln["via"] == "direct" and ln["g"] == "id":
            loc = parent
        elif ln["via"] in ("direct", "calc"):
            loc = lsl.Calc(fn, parent, _name=f"link{i}")
        elif ln["via"] == "tcalc":
            loc = lsl.TransientCalc(fn, parent, _name=f"link{i}")
        elif ln["via"] == "wvar":
            loc = lsl.Var(lsl.Calc(fn, parent), name=f"link{i}")
        elif ln["via"] in ("chain_kw", "chain_pos"):
            # two cached calculations in a row, the second taking the first as a keyword / positional input
            first = lsl.Calc(lambda x: jnp.asarray(x) + 3.0, parent, _name=f"link{i}_a")
            if ln["via"] == "chain_kw":
                loc = lsl.Calc(lambda base, _fn=fn: _fn(base - 3.0), base=first, _name=f"link{i}_b")      # (_fn bound now: fn is rebound per link)
            else:
                loc = lsl.Calc(lambda base, _fn=fn: _fn(base - 3.0), first, _name=f"link{i}_b")
        else:
            loc = lsl.Calc(fn, parent)
        shape_i = child_shape if i == 1 else vs[-1].value.shape
        mk = lsl.obs if (i == len(c["links"]) and c["observed_leaf"]) else lsl.param
        # (the last variable may hold an integer-typed placeholder: simulate keeps the shape of the current value, not its dtype)
        init = (np.zeros(shape_i, dtype=np.int32) + 2) if (c.get("int_leaf") and i == len(c["links"])) else (np.zeros(shape_i, dtype=np.float32) + 2.0)
        v = mk(init, lsl.Dist(tfd.Normal, loc=loc, scale=np.float32(1e-3)), name=f"v{i}")
        if mk is lsl.param and (c.get("transformed") or [False] * 9)[i] and init.dtype == np.float32:
            tvars.append(v.transform(tfb.Scale, np.float32(2.0)))       # bijector class with arguments: v becomes weak, v = 2 * v_transformed
        vs.append(v)
    extra = []
    if c["extra_branch"]:
        # a second child of the root through its own cached calculation
        loc = lsl.Calc(lambda x: 2.0 * jnp.asarray(x), vs[0], _name="branch_link")
        extra.append(lsl.obs(np.zeros(vs[1].value.shape, dtype=np.float32), lsl.Dist(tfd.Normal, loc=loc, scale=np.float32(1e-3)), name="w"))
    order = (tvars + vs + extra) if c.get("t_first") else (vs + extra + tvars)
    model = lsl.GraphBuilder().add(*order).build_model()
    return model, vs, extra


def skip_names(c, model):
    if c["skip_kind"] == "none":
        return []
    name = f"v{c['skip_idx']}"
    if name + "_transformed" in model.vars:
        name = name + "_transformed"        # the distribution now belongs to the unconstrained variable
    var = model.vars[name]
    return [{"var": name, "dist": var.dist_node.name, "value": var.dist_node.at.name}[c["skip_kind"]]]


H_NEW = 2.0


def prepare(model, c):
    """auto-update setting of the case; optionally the model is left out of date on entry (hyperparameter assigned with auto-update off)"""
    if c.get("stale_entry"):
        model.auto_update = False
        model.vars["h"].value = np.float32(H_NEW)
    model.auto_update = c["auto_update"]


def oracle(c):
    det = lambda: f"{c}"  # noqa: E731
    model, vs, extra = build(c)
    prepare(model, c)
    before = {v.name: np.asarray(v.value).copy() for v in vs + extra}
    skip = skip_names(c, model)
    key = jax.random.PRNGKey(c["seed"])
    ret = model.simulate(key, skip=skip)
    require(ret is model, "simulate-does-not-return-model", det)
    if not c["auto_update"] and any(v.name + "_transformed" in model.vars for v in vs):
        model.update()      # a transformed variable is a calculation of the drawn unconstrained one: with auto-update off it is current after update()
    after = {v.name: np.asarray(v.value).copy() for v in vs + extra}
    skipped = {f"v{c['skip_idx']}"} if skip else set()
    for nm in before:
        require(after[nm].shape == before[nm].shape, "shape-not-preserved", lambda: f"{nm}: {before[nm].shape} -> {after[nm].shape}; {det()}")
        if nm in skipped:
            require(np.array_equal(after[nm], before[nm]), "skipped-variable-changed", lambda: f"{nm}; {det()}")
        else:
            require(not np.array_equal(after[nm], before[nm]), "non-skipped-variable-not-drawn", lambda: f"{nm}; {det()}")
    if c.get("stale_entry") and "v0" not in skipped:
        v0 = after["v0"].astype(np.float64)
        if not np.all(np.abs(v0 - 10.0 * H_NEW) <= 9e-3):
            sig = "child-drawn-at-stale-parent-value" if np.all(np.abs(v0) <= 9e-3) else "child-not-drawn-around-new-parent-value"
            require(False, sig, lambda: f"v0 (model out of date on entry, auto_update={c['auto_update']}): {v0.reshape(-1)[:3].tolist()} expected about {10.0 * H_NEW}; {det()}")
    # ancestral: each non-skipped child sits at g(new parent)
    for i, ln in enumerate(c["links"], start=1):
        nm = f"v{i}"
        if nm in skipped:
            continue
        par = after[f"v{i - 1}"].astype(np.float64)
        exp = G[ln["g"]][0](par)
        got = after[nm].astype(np.float64)
        exp_b = np.broadcast_to(exp, got.shape)
        lim = 8e-3 + 4e-6 * np.abs(exp_b)
        stale = np.broadcast_to(G[ln["g"]][0](before[f"v{i - 1}"].astype(np.float64)), got.shape)
        ok = np.all(np.abs(got - exp_b) <= lim)
        if not ok:
            sig = "child-drawn-at-stale-parent-value" if np.all(np.abs(got - stale) <= lim + 1e-3) else "child-not-drawn-around-new-parent-value"
            require(False, sig, lambda: f"{nm} via {ln['via']} (auto_update={c['auto_update']}): child {got.reshape(-1)[:3].tolist()} g(new parent) {exp_b.reshape(-1)[:3].tolist()} "
                                        f"g(old parent) {stale.reshape(-1)[:3].tolist()}; {det()}")
    if extra and "v0" not in skipped or (extra and True):
        w = after["w"].astype(np.float64)
        exp = np.broadcast_to(2.0 * after["v0"].astype(np.float64), w.shape)
        stale = np.broadcast_to(2.0 * before["v0"].astype(np.float64), w.shape)
        if not np.all(np.abs(w - exp) <= 8e-3 + 4e-6 * np.abs(exp)):
            sig = "child-drawn-at-stale-parent-value" if np.all(np.abs(w - stale) <= 9e-3 + 4e-6 * np.abs(stale)) else "child-not-drawn-around-new-parent-value"
            require(False, sig, lambda: f"w (second branch, auto_update={c['auto_update']}): {w.reshape(-1)[:3].tolist()} vs {exp.reshape(-1)[:3].tolist()}; {det()}")
    # determinism in the seed
    m2, vs2, ex2 = build(c)
    prepare(m2, c)
    m2.simulate(key, skip=skip)
    m2.update()
    for v in vs2 + ex2:
        require(np.array_equal(np.asarray(v.value), after[v.name]), "same-seed-different-result", lambda: f"{v.name}; {det()}")
    m3, vs3, ex3 = build(c)
    prepare(m3, c)
    m3.simulate(jax.random.PRNGKey(c["seed"] + 1), skip=skip)
    m3.update()
    if "v0" not in skipped:
        require(not np.array_equal(np.asarray(vs3[0].value), after["v0"]), "different-seed-same-result", det)
    # coherence after update()
    model.update()
    require(not any(n.outdated for n in model.nodes.values()), "outdated-after-update", det)
    lp = 0.0
    vals = {nm: after[nm].astype(np.float64) for nm in after}
    if c.get("stale_entry"):
        lp += float(np.sum(sps.norm.logpdf(vals["v0"], 10.0 * H_NEW, 1e-3)))
    else:
        lp += float(np.sum(sps.norm.logpdf(vals["v0"], 0.0, 50.0)))
    for i, tr in enumerate(c.get("transformed") or []):
        if f"v{i}_transformed" in model.vars:
            lp += float(np.size(vals[f"v{i}"]) * np.log(2.0))        # density of t = v / 2:  log p(2 t) + log 2 per element
    mag = abs(lp)
    for i, ln in enumerate(c["links"], start=1):
        t = sps.norm.logpdf(vals[f"v{i}"], np.broadcast_to(G[ln["g"]][0](vals[f"v{i - 1}"]), vals[f"v{i}"].shape), 1e-3)
        lp += float(np.sum(t))
        mag += float(np.sum(np.abs(t))) + float(np.sum(np.abs(vals[f"v{i}"]))) * 1e3 * 4e-4 * 1e3   # z-score is ill-conditioned in float32
    if extra:
        t = sps.norm.logpdf(vals["w"], np.broadcast_to(2.0 * vals["v0"], vals["w"].shape), 1e-3)
        lp += float(np.sum(t))
        mag += float(np.sum(np.abs(t))) + float(np.sum(np.abs(vals["w"]))) * 4e2
    got = float(np.asarray(model.log_prob))
    # float32: (x - mu)/1e-3 with |x| ~ 50 has absolute error ~ 4e-6/1e-3 per element on the z-score; compare loosely but meaningfully
    zerr = sum(float(np.sum((4e-6 * np.abs(vals[k]) / 1e-3 + 1) ** 2 + 2 * 8 * (4e-6 * np.abs(vals[k]) / 1e-3))) for k in vals if k != "v0" or c.get("stale_entry"))
    require(abs(got - lp) <= 1e-4 * (abs(lp) + 1) + zerr, "model-incoherent-after-simulate-and-update", lambda: f"log_prob {got} oracle {lp} (tol {1e-4 * (abs(lp) + 1) + zerr:.3g}); {det()}")
    cached_off = (not c["auto_update"]) and any(ln["via"] in ("calc", "wvar", "bare", "chain_kw", "chain_pos") or (ln["via"] == "direct" and ln["g"] != "id") for ln in c["links"])
    nt = cached_off or bool(skip)
    return {"nt": bool(nt), "cls": [c["shape"], "auto" if c["auto_update"] else "noauto", c["skip_kind"], f"depth{c['depth']}", "branch" if extra else "nobranch"]
            + sorted({ln["via"] for ln in c["links"]})}


# ------------------------------------------------------------------------------ PIT (statistical)
CDF = {
    "Normal": lambda p, x: sps.norm.cdf(x, p["loc"], p["scale"]), "HalfNormal": lambda p, x: sps.halfnorm.cdf(x, scale=p["scale"]),
    "Gamma": lambda p, x: sps.gamma.cdf(x, p["concentration"], scale=1 / p["rate"]), "InverseGamma": lambda p, x: sps.invgamma.cdf(x, p["concentration"], scale=p["scale"]),
    "Exponential": lambda p, x: sps.expon.cdf(x, scale=1 / p["rate"]), "LogNormal": lambda p, x: sps.lognorm.cdf(x, p["scale"], scale=np.exp(p["loc"])),
    "Beta": lambda p, x: sps.beta.cdf(x, p["concentration1"], p["concentration0"]), "Uniform": lambda p, x: sps.uniform.cdf(x, p["low"], p["high"] - p["low"]),
}


def gen_pit():
    from hypothesis import strategies as st

    return st.fixed_dictionaries({"spec": mg.spec_strategy(min_vars=2, max_vars=4, allow_discrete=False, roles=("param", "obs")),
                                  "auto_update": st.booleans(), "case_seed": st.integers(0, 2**30)})


def oracle_pit(c):
    spec = c["spec"]
    if not mg.numerically_tame(spec, seed=c["case_seed"]):
        # hierarchies whose draws overflow float32 (e.g. exp of a wide normal as a rate) make TFP's rejection samplers spin: outside the domain
        return {"nt": False, "cls": ["numerically-wild-skipped"]}
    lvars = mg.build(spec)
    model = lsl.GraphBuilder().add(*lvars).build_model()
    model.auto_update = c["auto_update"]
    dvars = [i for i, d in enumerate(spec["vars"]) if d["family"]]

    saved = model.state

    def draw(key):
        model.simulate(key)
        return [v.value for v in lvars]

    vdraw = jax.jit(jax.vmap(draw))

    def stat(n, subseed):
        keys = jax.random.split(jax.random.PRNGKey((c["case_seed"] + 7919 * subseed) % 2**31), n)
        try:
            draws = [np.asarray(a, dtype=np.float64) for a in vdraw(keys)]      # traced once: simulate() runs on tracers
        finally:
            model.state = saved                                                  # drop the tracers left in the model
        out = {}
        for i in dvars:
            d = spec["vars"][i]
            us = np.empty(n)
            for j in range(n):
                values = [a[j] for a in draws]
                p = {kk: mg.ref_value(r, values) for kk, r in d["params"].items()}
                us[j] = np.asarray(CDF[d["family"]](p, values[i]), dtype=np.float64).reshape(-1)[0]
            out[f"ks_{d['name']}"] = stats.ks_uniform_z(np.clip(us, 1e-12, 1 - 1e-12))
        return out

    sig, rep = stats.decide(stat, 1024, 1)
    if sig:
        raise Violation("pit-not-uniform-under-new-ancestor-values", f"{sig}: {rep}; {c}")
    has_link = any(r[0] != "const" for i in dvars for r in spec["vars"][i]["params"].values())
    return {"nt": bool(has_link), "cls": ["auto" if c["auto_update"] else "noauto", "linked" if has_link else "independent"], "extra": {"max_abs_z": rep["max_abs_z"]}}


# ------------------------------------------------------------------------------ "determined by the seed": also across interpreter sessions
def sim_digest(c):
    import hashlib

    model, vs, extra = build(c)
    prepare(model, c)
    model.simulate(jax.random.PRNGKey(c["seed"]), skip=skip_names(c, model))
    h = hashlib.sha256()
    for v in vs + extra:
        h.update(v.name.encode() + np.ascontiguousarray(np.asarray(v.value)).tobytes())
    return h.hexdigest()


def oracle_cross(c):
    import json
    import os
    import subprocess
    import sys

    digs = {"this": sim_digest(c)}
    for hs in ("1", "2"):
        env = dict(os.environ, PYTHONHASHSEED=hs)
        out = subprocess.run([sys.executable, "-m", "checks.c17_simulate", "--child", json.dumps(c)], env=env, capture_output=True, text=True, cwd=os.environ.get("VERIF_DIR", "."))
        line = [ln for ln in out.stdout.splitlines() if ln.startswith("DIGEST ")]
        if not line:
            raise RuntimeError(f"harness: child process failed: {out.stderr[-800:]}")
        digs[hs] = line[-1].split()[1]
    require(len(set(digs.values())) == 1, "simulated-values-depend-on-interpreter-hash-seed", f"digests {digs}; {c}")
    return {"nt": c["depth"] >= 3 or c["extra_branch"], "cls": [f"depth{c['depth']}", c["skip_kind"]]}


SUBS = [
    Sub("ancestral", oracle, gen=gen, n={"quick": 400, "thorough": 8000}, shrink_calls=60, what="tight children sit at g(new parent); shapes; skips; seeds; coherence"),
    Sub("pit", oracle_pit, gen=gen_pit, n={"quick": 24, "thorough": 300}, shrink={"quick": False, "thorough": False}, min_per_shard=3,
        what="PIT of drawn variables under the new ancestor values is uniform (1024 seeds per case, vmapped)"),
    Sub("cross_process", oracle_cross, gen=gen, n={"quick": 8, "thorough": 60}, shrink={"quick": False, "thorough": False}, min_per_shard=2,
        what="the same seed in separate interpreter processes with different PYTHONHASHSEED values gives bit-identical simulated values"),
]


if __name__ == "__main__":
    import json
    import sys

    if len(sys.argv) >= 3 and sys.argv[1] == "--child":
        print("DIGEST", sim_digest(json.loads(sys.argv[2])))
