"""C14 — Transforming a variable preserves the model (change of variables).

Generated (distribution, bijector, entry point) combinations:
  distributions  HalfNormal, HalfCauchy, Gamma, InverseGamma, Exponential, LogNormal (positive), Beta, Uniform(low, high) (bounded), Normal
  bijectors      Exp, Softplus, Softplus(hinge_softness = const | Var), Sigmoid(low, high), Scale(const | Var), Shift o Scale, default
  entry points   Var.transform(instance), Var.transform(Class, *args/**kwargs), Var.transform(None), auto_transform at build,
                 deprecated GraphBuilder.transform (instance / class / default)
  parameters     constants or other (strong) variables; scalar and vector values
Oracle (float64 closed forms): original value unchanged by the transformation and equal to b(t) after every assignment of t;
new log-density at t = original log-density at b(t) + log|b'(t)|; parameter flag moved, original keeps no distribution and
is weak, new variable strong; model log-prob consistent; invalid uses raise and leave the variable untransformed.
"""
from __future__ import annotations

import math
import warnings

import numpy as np
from scipy import special as sp
from scipy import stats as sps

from vlib.lz import jax, jnp, lsl, tfb, tfd
from vlib.runner import Sub, Violation, require

PROPERTY = "C14"
RULE = ("cases = (distribution family with parameters given as constants or other variables, bijector kind with constant or variable "
        "arguments, entry point, scalar / vector value anywhere in the support, three assignments of the new unconstrained variable); "
        "non-trivial = |b(t) - t| > 10% at the point or a parameter / bijector argument given as another variable; distinct = SHA-1")
ASSUMPTIONS = [
    "closed-form bijector maps / Jacobians and scipy.stats log-densities in float64 are the reference; float32 tolerance 3e-5 relative to the "
    "magnitude of the terms (values kept away from the float32 saturation of sigmoid / softplus), x64 shards 1e-9",
    "the deprecated GraphBuilder.transform converts values to float32 (local model with to_float32=True), so it is exercised on the float32 "
    "shards only",
    "the name of a distribution's default event-space bijector is read from TFP (Softplus / Exp / Sigmoid / Reciprocal o Softplus); its map is not",
]
SHARDS = {"quick": 16, "thorough": 16}
TECHNIQUE = ("Hypothesis-generated distribution x bijector x entry-point combinations against float64 closed forms (scipy log-densities, "
             "analytic bijector maps and Jacobians); differential against the untransformed twin model; negative tests for invalid uses")
LEVEL_TEXT = ("Generated-input differential testing: every supported transformation path is compared with the change-of-variables formula "
              "computed independently in float64, at the initial value and after assignments across the real line, including bijector "
              "arguments and distribution parameters that are themselves model variables; structural post-conditions and the rejection "
              "of invalid uses are asserted. Exploration, not proof.")
LEVEL_NOTE = "Trusts scipy.stats and the closed-form bijector formulas in this file."


def shard_env(i, n):
    return {"VERIF_X64": "1" if i % 2 == 1 else "0"}


def x64():
    return bool(jax.config.jax_enable_x64)


FAM = {
    # name: (tfd class name, param slots, support, scipy logpdf)
    "HalfNormal": (["scale"], "pos"), "HalfCauchy": (["loc0", "scale"], "pos"), "Gamma": (["concentration", "rate"], "pos"),
    "InverseGamma": (["concentration", "scale"], "pos"), "Exponential": (["rate"], "pos"), "LogNormal": (["loc", "scale"], "pos"),
    "Beta": (["concentration1", "concentration0"], "unit"), "Uniform": (["low", "high"], "bounded"), "Normal": (["loc", "scale"], "real"),
}
BIJ_FOR = {"pos": ["exp", "softplus", "softplus_c", "softplus_v", "default"], "unit": ["sigmoid01", "default"], "bounded": ["sigmoid_lh", "default", "algsig"],
           "real": ["scale_c", "scale_v", "shift_scale"]}
ENTRIES = ["instance", "class", "default", "auto", "gb_instance", "gb_class", "gb_default"]


def logpdf(fam, p, x):
    x = np.asarray(x, dtype=np.float64)
    if fam == "HalfNormal":
        return sps.halfnorm.logpdf(x, scale=p["scale"])
    if fam == "HalfCauchy":
        return sps.halfcauchy.logpdf(x, loc=0.0, scale=p["scale"])
    if fam == "Gamma":
        return sps.gamma.logpdf(x, p["concentration"], scale=1 / p["rate"])
    if fam == "InverseGamma":
        return sps.invgamma.logpdf(x, p["concentration"], scale=p["scale"])
    if fam == "Exponential":
        return sps.expon.logpdf(x, scale=1 / p["rate"])
    if fam == "LogNormal":
        return sps.lognorm.logpdf(x, p["scale"], scale=np.exp(p["loc"]))
    if fam == "Beta":
        return sps.beta.logpdf(x, p["concentration1"], p["concentration0"])
    if fam == "Uniform":
        return sps.uniform.logpdf(x, p["low"], p["high"] - p["low"])
    if fam == "Normal":
        return sps.norm.logpdf(x, p["loc"], p["scale"])
    raise ValueError(fam)


def bij_maps(kind, args):
    """(forward b, inverse, log|b'|) as float64 numpy closed forms"""
    if kind == "exp":
        return np.exp, np.log, lambda t: t
    if kind in ("softplus", "softplus_c", "softplus_v"):
        c = args.get("c", 1.0)
        return (lambda t: c * np.logaddexp(0.0, t / c), lambda v: v + c * np.log(-np.expm1(-v / c)), lambda t: -np.logaddexp(0.0, -t / c))
    if kind in ("sigmoid01", "sigmoid_lh"):
        lo, hi = args.get("lo", 0.0), args.get("hi", 1.0)
        return (lambda t: lo + (hi - lo) * sp.expit(t), lambda v: sp.logit((v - lo) / (hi - lo)),
                lambda t: math.log(hi - lo) - np.logaddexp(0.0, -t) - np.logaddexp(0.0, t))
    if kind == "algsig":
        # liesel's own AlgebraicSigmoid: b(t) = t / sqrt(1 + t^2) onto (-1, 1)
        return (lambda t: t / np.sqrt(1 + t * t), lambda v: v / np.sqrt(1 - v * v), lambda t: -1.5 * np.log1p(t * t))
    if kind in ("scale_c", "scale_v"):
        s = args["s"]
        return (lambda t: s * t, lambda v: v / s, lambda t: np.full(np.shape(t), math.log(abs(s))))
    if kind == "shift_scale":
        a, s = args["a"], args["s"]
        return (lambda t: a + s * t, lambda v: (v - a) / s, lambda t: np.full(np.shape(t), math.log(abs(s))))
    if kind == "recip_softplus":
        return (lambda t: 1.0 / np.logaddexp(0.0, t), lambda v: (1 / v) + np.log(-np.expm1(-1 / v)),
                lambda t: -2 * np.log(np.logaddexp(0.0, t)) - np.logaddexp(0.0, -t))
    raise ValueError(kind)


def gen():
    from hypothesis import strategies as st
    from vlib.gens import f32

    @st.composite
    def g(draw):
        fam = draw(st.sampled_from(sorted(FAM)))
        slots, support = FAM[fam]
        kind = draw(st.sampled_from(BIJ_FOR[support]))
        entry = draw(st.sampled_from(ENTRIES))
        if kind == "default" and entry not in ("default", "auto", "gb_default"):
            entry = draw(st.sampled_from(["default", "auto", "gb_default"]))
        if kind != "default" and entry in ("default", "auto", "gb_default"):
            entry = draw(st.sampled_from(["instance", "class", "gb_instance", "gb_class"]))
        if kind in ("softplus_v", "scale_v") and entry in ("instance", "gb_instance"):
            entry = draw(st.sampled_from(["class", "gb_class"]))           # a variable argument needs the class entry point
        if kind in ("exp", "softplus", "shift_scale") and entry in ("class", "gb_class"):
            entry = draw(st.sampled_from(["instance", "gb_instance"]))     # a class without arguments is an invalid use; Chain has no class form
        params = {}
        for sl in slots:
            if sl == "loc0":
                continue
            if sl == "low":
                params[sl] = -float(draw(st.integers(1, 3)))
            elif sl == "high":
                params[sl] = float(draw(st.integers(1, 3)))
            elif sl == "loc":
                params[sl] = float(draw(st.sampled_from([0.0, 0.5, -1.0])))
            else:
                params[sl] = float(draw(st.sampled_from([0.5, 1.0, 1.5, 2.5])))
        var_params = [sl for sl in params if draw(st.integers(0, 2)) == 0]       # these are given as other (strong) variables
        if kind == "algsig":
            params, var_params = {"low": -1.0, "high": 1.0}, []
            entry = draw(st.sampled_from(["instance", "gb_instance"]))
        return {"fam": fam, "kind": kind, "entry": entry, "params": params, "var_params": var_params,
                "c": draw(st.sampled_from([0.5, 1.0, 2.0])), "s": draw(st.sampled_from([0.5, 2.0, -1.5])), "a": draw(st.sampled_from([0.0, 1.0, -2.0])),
                "vector": draw(st.booleans()), "role": draw(st.sampled_from(["param", "param", "obs", "plain"])), "per_obs": draw(st.booleans()),
                "indirect": draw(st.booleans()), "int_init": draw(st.integers(0, 3)) == 0, "copy": draw(st.sampled_from(["none", "none", "build_copy", "deepcopy"])),
                "z": [draw(f32(-2, 2)) for _ in range(3)], "ts": [[draw(f32(-4, 4)) for _ in range(3)] for _ in range(3)],
                "new_params": [draw(st.sampled_from([0.75, 1.25, 2.0])) for _ in range(3)]}

    return g()


def to_support(z, support, lo, hi):
    z = np.asarray(z, dtype=np.float64)
    if support == "pos":
        return np.exp(0.8 * z)
    if support == "unit":
        return 0.03 + 0.94 * sp.expit(1.5 * z)
    if support == "bounded":
        return lo + (hi - lo) * (0.03 + 0.94 * sp.expit(1.5 * z))
    return 1.5 * z


def build(c, transformed=True):
    dt = np.float64 if x64() else np.float32
    fam = c["fam"]
    slots, support = FAM[fam]
    pvars, kw = {}, {}
    for sl, v in c["params"].items():
        if sl in c["var_params"]:
            pvars[sl] = lsl.Var(dt(v), name=f"p_{sl}")
            kw[sl] = pvars[sl]
        else:
            kw[sl] = dt(v)
    if fam == "HalfCauchy":
        kw["loc"] = dt(0.0)
    dist = lsl.Dist(getattr(tfd, fam), **kw)
    dist.per_obs = c["per_obs"]
    lo, hi = c["params"].get("low", 0.0), c["params"].get("high", 1.0)
    z = c["z"] if c["vector"] else c["z"][:1]
    v0 = to_support(z, support, lo, hi)
    v0 = np.asarray(v0 if c["vector"] else v0.reshape(()), dtype=dt)
    if c.get("int_init") and not x64() and c["kind"] in ("exp", "scale_c", "scale_v", "shift_scale") and support in ("pos", "real"):    # (TFP maps integers to float32 even under x64)
        # an integer-typed initial value inside the support (Python int / int array); bijectors whose TFP inverse rejects integers are left out
        vi = np.maximum(np.rint(np.asarray(v0, dtype=np.float64)), 1 if support == "pos" else -50).astype(np.int32)
        v0 = vi if c["vector"] else int(vi.reshape(()))
    mk = {"param": lsl.param, "obs": lsl.obs, "plain": lsl.Var}[c["role"]]
    x = mk(v0, dist, name="x")
    extra = {}
    if not transformed:
        return x, pvars, extra, None
    kind, entry = c["kind"], c["entry"]
    if x64() and entry.startswith("gb_"):
        # the deprecated GraphBuilder.transform builds a local model with to_float32=True: float32 shards only
        entry = {"gb_instance": "instance", "gb_class": "class", "gb_default": "default"}[entry]
    args = {}
    if kind in ("softplus_c", "softplus_v"):
        args["c"] = c["c"]
    if kind in ("scale_c", "scale_v", "shift_scale"):
        args["s"], args["a"] = c["s"], c["a"]
    if kind in ("sigmoid01", "sigmoid_lh"):
        args["lo"], args["hi"] = (lo, hi) if kind == "sigmoid_lh" else (0.0, 1.0)
    bvar = None
    if kind == "softplus_v":
        bvar = lsl.Var(dt(c["c"]), name="hinge")
    if kind == "scale_v":
        bvar = lsl.Var(dt(c["s"]), name="bscale")

    def instance():
        if kind == "exp":
            return tfb.Exp()
        if kind == "softplus":
            return tfb.Softplus()
        if kind == "softplus_c":
            return tfb.Softplus(hinge_softness=dt(c["c"]))
        if kind in ("sigmoid01", "sigmoid_lh"):
            return tfb.Sigmoid(low=dt(args["lo"]), high=dt(args["hi"]))
        if kind == "algsig":
            from liesel.bijectors import AlgebraicSigmoid

            return AlgebraicSigmoid()
        if kind == "scale_c":
            return tfb.Scale(dt(c["s"]))
        if kind == "shift_scale":
            return tfb.Chain([tfb.Shift(dt(c["a"])), tfb.Scale(dt(c["s"]))])
        raise RuntimeError("harness: no instance for " + kind)

    def cls_args():
        if kind in ("softplus_c", "softplus_v"):
            return tfb.Softplus, (), {"hinge_softness": bvar if bvar is not None else dt(c["c"])}
        if kind in ("sigmoid01", "sigmoid_lh"):
            return tfb.Sigmoid, (), {"low": dt(args["lo"]), "high": dt(args["hi"])}
        if kind in ("scale_c", "scale_v"):
            return tfb.Scale, (bvar if bvar is not None else dt(c["s"]),), {}
        raise RuntimeError("harness: no class form for " + kind)

    gb = lsl.GraphBuilder(to_float32=not x64())
    with warnings.catch_warnings():
        warnings.simplefilter("ignore")
        if kind == "default":
            name = type(dist.init_dist().experimental_default_event_space_bijector()).__name__
            kind_eff = {"Softplus": "softplus", "Exp": "exp", "Sigmoid": "sigmoid_lh" if fam == "Uniform" else "sigmoid01"}.get(name)
            if name == "Chain" and fam == "InverseGamma":
                kind_eff = "recip_softplus"
            if name == "Chain" and fam == "HalfCauchy":
                kind_eff = "exp"           # Shift(loc=0) o Exp
            if kind_eff is None:
                raise RuntimeError(f"harness: unknown default bijector {name} for {fam}")
            if kind_eff == "sigmoid_lh":
                args["lo"], args["hi"] = lo, hi
            extra["kind_eff"] = kind_eff
        if entry == "instance":
            t = x.transform(instance())
        elif entry == "class":
            cl, a, k = cls_args()
            t = x.transform(cl, *a, **k)
        elif entry == "default":
            t = x.transform(None)
        elif entry == "auto":
            x.auto_transform = True
            t = None
        elif entry == "gb_instance":
            t = gb.transform(x, instance())
        elif entry == "gb_class":
            cl, a, k = cls_args()
            t = gb.transform(x, cl, *a, **k)
        else:
            t = gb.transform(x, None)
    if c.get("indirect"):
        # the transformed / flagged variable enters the graph only as a recursive input of the added root
        y = lsl.Var(lsl.Calc(lambda v: jnp.asarray(v) * 1, x), name="y")
        gb.add(y)
    else:
        gb.add(x)
        if t is not None:
            gb.add(t)
    how = c.get("copy", "none")
    model = gb.build_model(copy=(how == "build_copy"))
    if how == "deepcopy":
        import copy as _copy

        model = _copy.deepcopy(model)      # every law below must hold in an independent copy of the model just as well
    extra["args"] = args
    extra["bvar"] = bvar
    return x, pvars, extra, model


def oracle(c):
    dt = np.float64 if x64() else np.float32
    rt = 1e-9 if x64() else 3e-5
    det = lambda: f"{c}"  # noqa: E731
    fam = c["fam"]
    slots, support = FAM[fam]
    x0, _, _, _ = build(c, transformed=False)
    v_before = np.asarray(x0.value, dtype=np.float64)
    x, pvars, extra, model = build(c)
    kind = extra.get("kind_eff", c["kind"])
    args = dict(extra["args"])
    fwd, inv, ljac = bij_maps(kind, args)
    tname = "x_transformed"
    require(tname in model.vars, "no-transformed-variable-created", det)
    tv = model.vars[tname]
    xv = model.vars["x"]
    # structural post-conditions
    require(tv.strong and tv.has_dist, "new-variable-not-strong-with-distribution", det)
    require(xv.weak and xv.dist_node is None and not xv.has_dist, "original-keeps-distribution-or-stays-strong", det)
    require(bool(tv.parameter) == (c["role"] == "param") and not xv.parameter, "parameter-flag-not-moved",
            lambda: f"new.parameter={tv.parameter} original.parameter={xv.parameter}; {det()}")
    require(tv.dist_node.per_obs == c["per_obs"], "per_obs-flag-lost", det)
    # value preserved by the transformation
    v_after = np.asarray(xv.value, dtype=np.float64)
    require(v_after.shape == v_before.shape and bool(np.allclose(v_after, v_before, rtol=10 * rt, atol=10 * rt)), "original-value-changed-by-transformation",
            lambda: f"before {v_before.tolist()} after {v_after.tolist()}; {det()}")
    t0 = np.asarray(tv.value, dtype=np.float64)
    require(bool(np.allclose(t0, inv(v_before), rtol=30 * rt, atol=30 * rt)), "new-value-not-inverse-image", lambda: f"t={t0.tolist()} expected {inv(v_before).tolist()}; {det()}")

    params = dict(c["params"])
    nt = False

    def check_at(tag):
        nonlocal nt
        t = np.asarray(tv.value, dtype=np.float64)
        bt = fwd(t)
        got_x = np.asarray(xv.value, dtype=np.float64)
        sat = np.abs(t) > (30 if x64() else 12)       # float32 saturation of sigmoid / softplus tails: not compared
        if np.any(sat):
            return
        require(bool(np.allclose(got_x, bt, rtol=10 * rt, atol=10 * rt * (1 + np.max(np.abs(bt))))), tag + "original-not-bijector-image-of-new",
                lambda: f"t={t.tolist()} x={got_x.tolist()} b(t)={np.asarray(bt).tolist()}; {det()}")
        lp = logpdf(fam, params, bt) + ljac(t)
        got = np.asarray(tv.log_prob, dtype=np.float64)
        exp = lp if c["per_obs"] else np.asarray(np.sum(lp))
        mag = np.abs(logpdf(fam, params, bt)) + np.abs(ljac(t)) + 1
        tol = rt * (np.max(mag) if c["per_obs"] else np.sum(mag)) * 4
        require(got.shape == exp.shape and bool(np.all(np.abs(got - exp) <= tol)), tag + "new-log-density-not-change-of-variables",
                lambda: f"t={t.tolist()}: got {got.tolist()} expected {np.asarray(exp).tolist()} (= logpdf(b(t)) + log|b'(t)|, tol {tol:.2e}); {det()}")
        mlp = float(np.asarray(model.log_prob))
        require(abs(mlp - float(np.sum(lp))) <= tol + rt, tag + "model-log-prob-not-preserved", lambda: f"model.log_prob {mlp} expected {float(np.sum(lp))}; {det()}")
        if np.any(np.abs(bt - t) > 0.1 * (np.abs(t) + 1e-9)) or c["var_params"] or extra.get("bvar") is not None:
            nt = True

    check_at("initial:")
    for k, ts in enumerate(c["ts"]):
        tnew = np.asarray(ts if c["vector"] else ts[0], dtype=dt)
        tv.value = tnew
        # also move a variable parameter / bijector argument
        if k == 1:
            for sl in c["var_params"]:
                if sl in ("low", "high"):
                    if c["kind"] != "default":
                        continue       # an explicit Sigmoid(low, high) instance does not follow the distribution's bounds
                    params[sl] = float(dt(params[sl] + (1.0 if sl == "high" else -1.0) * c["new_params"][k]))
                    args["lo" if sl == "low" else "hi"] = params[sl]
                    fwd, inv, ljac = bij_maps(kind, args)
                elif sl == "loc":
                    params[sl] = float(dt(params[sl] + 0.5))
                else:
                    params[sl] = float(dt(c["new_params"][k]))
                model.vars[f"p_{sl}"].value = dt(params[sl])
            if extra.get("bvar") is not None:
                newv = float(dt(c["new_params"][k]))
                model.vars[extra["bvar"].name].value = dt(newv)
                if kind.startswith("softplus"):
                    args["c"] = newv
                else:
                    args["s"] = newv
                fwd, inv, ljac = bij_maps(kind, args)
        model.update()
        check_at(f"assignment{k}:")
    return {"nt": bool(nt), "cls": ["x64" if x64() else "f32", fam, kind, c["entry"], "indirect" if c.get("indirect") else "direct", "copy:" + c.get("copy", "none"), "varparam" if c["var_params"] else "constparam", "vector" if c["vector"] else "scalar"]}


# ------------------------------------------------------------------------------ invalid uses
def gen_invalid():
    from hypothesis import strategies as st

    return st.fixed_dictionaries({"how": st.sampled_from(["weak", "nodist", "class_noargs", "instance_args", "gb_weak", "gb_nodist", "gb_instance_args", "nodefault"]),
                                  "v": st.sampled_from([0.5, 1.0, 2.0])})


def oracle_invalid(c):
    how, v = c["how"], np.float32(c["v"])
    base = lsl.Var(v, name="base")
    gb = lsl.GraphBuilder()
    if how in ("weak", "gb_weak"):
        x = lsl.Var(lsl.Calc(lambda b: b * 2.0, base), lsl.Dist(tfd.HalfNormal, scale=1.0), name="x")
    elif how in ("nodist", "gb_nodist"):
        x = lsl.param(v, name="x")
    elif how == "nodefault":
        x = lsl.param(np.float32(1.0), lsl.Dist(tfd.Poisson, rate=2.0), name="x")
    else:
        x = lsl.param(v, lsl.Dist(tfd.HalfNormal, scale=1.0), name="x")
    snap = (x.strong, x.has_dist, x.parameter, id(x.value_node), id(x._dist_node), float(np.asarray(x.value)))
    try:
        with warnings.catch_warnings():
            warnings.simplefilter("ignore")
            if how in ("weak", "nodist"):
                x.transform(tfb.Exp())
            elif how == "class_noargs":
                x.transform(tfb.Exp)
            elif how == "instance_args":
                x.transform(tfb.Softplus(), hinge_softness=2.0)
            elif how == "nodefault":
                x.transform(None)
            elif how in ("gb_weak", "gb_nodist"):
                gb.transform(x, tfb.Exp())
            else:
                gb.transform(x, tfb.Softplus(), hinge_softness=2.0)
        raised = None
    except Exception as e:  # noqa: BLE001
        raised = e
    if how == "nodefault" and raised is None:
        # a distribution without default bijector may simply have none (TFP decides); only the "leave untransformed on error" law applies
        return {"nt": False, "cls": [how, "accepted"]}
    require(raised is not None, "invalid-transform-accepted:" + how, f"{c}")
    snap2 = (x.strong, x.has_dist, x.parameter, id(x.value_node), id(x._dist_node), float(np.asarray(x.value)))
    require(snap == snap2, "rejected-transform-changed-variable:" + how, f"{snap} -> {snap2}")
    return {"nt": True, "cls": [how]}


SUBS = [
    Sub("change_of_variables", oracle, gen=gen, n={"quick": 1200, "thorough": 20000}, shrink_calls=60, what="all transformation paths vs closed forms"),
    Sub("invalid_uses", oracle_invalid, gen=gen_invalid, n={"quick": 40, "thorough": 400}, what="invalid transformations raise and leave the variable unchanged"),
]
