"""C05 — Metropolis-Hastings acceptance rule is exact, incl. zero and undefined ratios.

Sub-oracles (all against ``liesel.goose.mh.mh_step`` of the working tree):
  boundary      exhaustive product over boundary alphabets of (current lp, proposed lp, correction, class of u);
                the uniform draw is owned by the harness (``jax.random.uniform`` answers with the generated u)
  floats        Hypothesis float32 triples incl. +-inf / NaN, harness-owned u placed relative to a
  real_keys     real PRNG keys, including keys whose uniform draw is exactly 0.0 (committed witnesses are
                re-validated and a fresh vmapped scan looks for more): distribution-free laws
  frequency     acceptance frequency over thousands of real keys matches the reported probability
  liesel_state  a Liesel graph model behind LieselInterface: state equality on accept / reject, NaN / -inf from
                real distributions
  kernels       RW / MH / IWLS kernel transitions on support-constrained targets: the same laws on their infos
"""
from __future__ import annotations

import itertools
import math

import numpy as np

from vlib.lz import gs, jax, jnp, lsl, tfd, tree_equal_bits
from vlib.runner import Sub, Violation, require
from vlib import stats

PROPERTY = "C05"
RULE = ("cases = (current log-density, proposed log-density, log-correction, uniform draw u or PRNG key); generated "
        "exhaustively over boundary alphabets, by Hypothesis float32 strategies, and from real PRNG keys incl. keys "
        "drawing exactly 0.0; non-trivial = acceptance probability in {0,1}, or a non-finite operand, or |u-a| <= 1 ulp, "
        "or (frequency/kernels) 0.02 < a < 0.98, or (iwls_undefined) P(undefined ratio) in (0.01, 0.99); distinct = distinct SHA-1 of the canonical case")
ASSUMPTIONS = [
    "float32 semantics; finite operands bounded by 1e37 so that sums do not overflow",
    "u == a with 0 < a < 1 is left unconstrained (the statement does not fix it)",
    "harness-owned u assertions apply only if mh_step draws through jax.random.uniform (detected at trace time); "
    "otherwise only the distribution-free and frequency laws are applied",
    "frequency sub-oracle is statistical: |z|>6 then three confirmations at 4N with |z|>4 (DESIGN 2.6)",
]
SHARDS = {"quick": 4, "thorough": 16}
TECHNIQUE = ("exhaustive boundary-alphabet enumeration + Hypothesis float32 generation against a float32 reference rule; "
             "harness-owned uniform draw and real PRNG keys incl. zero-draw keys; binomial frequency tests (acceptance; error code 90 vs the probability of an undefined IWLS ratio)")
LEVEL_TEXT = ("Generated-input search with an explicit float32 oracle of the acceptance rule: every combination of the boundary "
              "alphabets (finite, +-inf, NaN, under/overflow edges) x six placements of u relative to a is enumerated, random float32 "
              "triples and a Liesel graph model are added, real PRNG keys whose uniform draw is exactly 0.0 are searched for and "
              "replayed, RW/MH/IWLS kernel infos are checked on a support-constrained target, and the acceptance frequency over "
              "thousands of keys is compared with the reported probability. Exploration, not proof: exhaustive only over the stated alphabets.")
LEVEL_NOTE = ("Trusts numpy float32 arithmetic as the reference; the harness-owned-u assertions apply only when mh_step draws via "
              "jax.random.uniform (detected), otherwise distribution-free and frequency laws only.")

F32 = np.float32
EPS = float(np.finfo(np.float32).eps)
ZERO_DRAW_WITNESSES = [14620119, 20099561, 20334770]


# ------------------------------------------------------------------------------ the code under test, batched
class _Holder:
    u = None
    used = False


def _stub_uniform(key, shape=(), dtype=jnp.float32, minval=0.0, maxval=1.0):
    _Holder.used = True
    return jnp.broadcast_to(_Holder.u, shape).astype(dtype) if shape else _Holder.u.astype(dtype)


class _patched_uniform:
    def __enter__(self):
        self.orig = jax.random.uniform
        jax.random.uniform = _stub_uniform

    def __exit__(self, *a):
        jax.random.uniform = self.orig


_DICT_MODEL = gs.DictInterface(lambda s: s["lp"])
ID_LEAF, KEY_LEAF = [20_000_001, 7], [4_000_000_001, 3]


def _mh():
    import liesel.goose.mh as mh

    return mh.mh_step


def _run_dict(key, u, cur, prop, corr):
    # (a mixed-dtype state: integers that no float32 can represent, raw PRNG key words)
    state = {"x": jnp.float32(1.0), "lp": cur, "aux": jnp.array([3.0, -0.0], dtype=jnp.float32), "id": jnp.array(ID_LEAF, dtype=jnp.int32),
             "rawkey": jnp.array(KEY_LEAF, dtype=jnp.uint32)}
    proposal = {"x": jnp.float32(2.0), "lp": prop}
    _Holder.u = u
    info, out = _mh()(key, _DICT_MODEL, proposal, state, corr)
    return info.error_code, info.acceptance_prob, info.position_moved, out


_owned = None
_real = None


def eval_owned(u, cur, prop, corr):
    """mh_step with harness-owned uniform draw; arrays of equal length."""
    global _owned
    u, cur, prop, corr = (jnp.asarray(np.asarray(x, dtype=F32)) for x in (u, cur, prop, corr))
    with _patched_uniform():
        if _owned is None:
            _Holder.used = False
            _owned = jax.jit(jax.vmap(lambda u, c, p, k: _run_dict(jax.random.PRNGKey(0), u, c, p, k)))
        code, acc, moved, out = _owned(u, cur, prop, corr)
    return np.asarray(code), np.asarray(acc), np.asarray(moved), jax.tree_util.tree_map(np.asarray, out), _Holder.used


def eval_real(seeds, cur, prop, corr):
    global _real
    if _real is None:
        _real = jax.jit(jax.vmap(lambda s, c, p, k: _run_dict(jax.random.PRNGKey(s), jnp.float32(0), c, p, k)))
    seeds = jnp.asarray(np.asarray(seeds, dtype=np.int32))
    cur, prop, corr = (jnp.asarray(np.asarray(x, dtype=F32)) for x in (cur, prop, corr))
    code, acc, moved, out = _real(seeds, cur, prop, corr)
    return np.asarray(code), np.asarray(acc), np.asarray(moved), jax.tree_util.tree_map(np.asarray, out)


# ------------------------------------------------------------------------------ float32 oracle
def oracle_a(cur, prop, corr):
    """(is_nan, log_acc(float64 of the float32 program), a) in float32 semantics."""
    with np.errstate(all="ignore"):
        la = F32(F32(F32(prop) - F32(cur)) + F32(corr))
    if np.isnan(la):
        return True, float("nan"), 0.0
    la = float(la)
    a = 1.0 if la >= 0 else (0.0 if la == -math.inf else math.exp(la))
    return False, la, a


def judge(case, code, acc, moved, out, stub_used=True, use_u=True):
    cur, prop, corr = F32(case["cur"]), F32(case["prop"]), F32(case["corr"])
    isnan, la, a = oracle_a(cur, prop, corr)
    code, acc, moved = int(code), float(acc), int(moved)
    det = lambda: f"case={case} code={code} acc={acc!r} moved={moved} oracle(la={la!r}, a={a!r})"  # noqa: E731

    # --- reported quantities
    require(not math.isnan(acc) and 0.0 <= acc <= 1.0, "acceptance_prob-outside-[0,1]", det)
    require(code == (90 if isnan else 0), "error-code:" + ("nan-not-reported" if isnan else "spurious"), det)
    scale = max(abs(float(cur)) if np.isfinite(cur) else 0.0, abs(float(prop)) if np.isfinite(prop) else 0.0,
                abs(float(corr)) if np.isfinite(corr) else 0.0, 1.0)
    tol = 8 * EPS * scale + 1e-6
    if isnan or la == -math.inf:
        require(acc == 0.0, "acceptance_prob:should-be-0", det)
    elif la == math.inf or la > tol:
        require(acc == 1.0, "acceptance_prob:should-be-1", det)
    elif la < -tol - 1e-6 and la > -80:
        require(acc > 0 and abs(math.log(acc) - la) <= tol + 4 * EPS * abs(la), "acceptance_prob:wrong-value", det)
    elif la <= -110:
        require(acc == 0.0, "acceptance_prob:should-underflow-to-0", det)

    # --- what happened to the state
    x_out = float(out["x"])
    accepted = x_out == 2.0
    rest = {"aux": np.array([3.0, -0.0], dtype=F32), "id": np.array(ID_LEAF, dtype=np.int32), "rawkey": np.array(KEY_LEAF, dtype=np.uint32)}
    st_in = dict({"x": F32(1.0), "lp": cur}, **rest)
    st_prop = dict({"x": F32(2.0), "lp": prop}, **rest)
    if accepted:
        require(tree_equal_bits(out, st_prop), "accepted-state-not-proposal", det)
    else:
        require(tree_equal_bits(out, st_in), "rejected-state-differs-from-input", det)
    require(bool(moved) == accepted, "moved-flag-wrong", det)

    # --- the rule
    # exact zero: undefined ratio, -inf, or below the float32 exp underflow; the subnormal band (-104, -87.3) where
    # XLA flushes exp() to 0 although the true probability is positive is left unconstrained
    a_zero = isnan or la == -math.inf or la <= -104.0
    if a_zero:
        require(not accepted, "accepted-with-probability-zero", det)
    if acc == 1.0:
        require(accepted, "rejected-with-probability-one", det)
    u = case.get("u")
    if acc == 0.0 and not a_zero:
        u = None
    nt = isnan or a in (0.0, 1.0) or not all(np.isfinite([cur, prop, corr]))
    if use_u and stub_used and u is not None:
        u = float(F32(u))
        if u < acc:
            require(accepted, "rejected-although-u<a", det)
        elif u > acc:
            require(not accepted, "accepted-although-u>a", det)
        if acc > 0 and abs(u - acc) <= 2 * EPS * acc:
            nt = True
    cls = ["nan" if isnan else ("a=0" if acc == 0 else ("a=1" if acc == 1 else "0<a<1")), "acc" if accepted else "rej"]
    if not stub_used:
        cls.append("stub_unused")
    return {"nt": bool(nt), "cls": cls}


def _u_for(cls: str, a: float) -> float | None:
    a32 = F32(a)
    if cls == "zero":
        return 0.0
    if cls == "tiny":
        return float(F32(2.0**-23))
    if cls == "below":
        return None if a32 <= 0 else float(np.nextafter(a32, F32(-1)))
    if cls == "at":
        return float(a32) if a32 < 1 else None
    if cls == "above":
        return None if a32 >= F32(1 - 2.0**-24) else float(np.nextafter(a32, F32(2)))
    if cls == "top":
        return float(F32(1 - 2.0**-24))
    if cls == "half":
        return 0.5
    raise ValueError(cls)


def oracle_owned_cases(cases):
    """Evaluate many owned-u cases in one batch; yields per-case closures for run_case."""
    cases = [dict(c) for c in cases]
    n = len(cases)
    pad = max(8, 1 << (n - 1).bit_length())
    arr = lambda k: np.array([c[k] for c in cases] + [0.0] * (pad - n), dtype=F32)  # noqa: E731
    # first pass with u=0.5 to learn the reported acceptance probability, then place u relative to it
    code, acc, moved, out, used = eval_owned(np.full(pad, 0.5), arr("cur"), arr("prop"), arr("corr"))
    for i, c in enumerate(cases):
        if c.get("u") is None:
            c["u"] = _u_for(c["ucls"], float(acc[i]))
            if c["u"] is None:
                c["u"] = 0.5
    code, acc, moved, out, used = eval_owned(arr("u"), arr("cur"), arr("prop"), arr("corr"))
    res = []
    for i, c in enumerate(cases):
        o = jax.tree_util.tree_map(lambda x: x[i], out)
        res.append((c, (code[i], acc[i], moved[i], o, used)))
    return res


def oracle_owned(case):
    (c, r), = oracle_owned_cases([case])
    return judge(c, *r)


# ------------------------------------------------------------------------------ sub: boundary (exhaustive)
LP_ALPHA = [-math.inf, -1e30, -200.0, -87.4, -1.0, 0.0, 1.0, 88.8, 1e30, math.inf, math.nan]
CORR_ALPHA = [-math.inf, -105.0, -1.0, -1e-7, 0.0, 1e-7, 1.0, math.inf, math.nan]
UCLS = ["zero", "tiny", "below", "at", "above", "top"]


def run_boundary(ctx):
    cases = [{"cur": c, "prop": p, "corr": k, "ucls": u}
             for c, p, k, u in itertools.product(LP_ALPHA, LP_ALPHA, CORR_ALPHA, UCLS)]
    cases = cases[ctx.shard::ctx.nshards]
    for c, r in oracle_owned_cases(cases):
        ctx.run_case("boundary", c, lambda cc, r=r: judge(cc, *r))


# ------------------------------------------------------------------------------ sub: floats (hypothesis)
def gen_floats():
    from hypothesis import strategies as st

    from vlib.gens import f32

    fin = f32(-1e37, 1e37)
    near = f32(-120, 120)
    special = st.sampled_from([math.inf, -math.inf, math.nan, 0.0, -0.0])
    lp = st.one_of(near, near, fin, special)
    item = st.fixed_dictionaries({"cur": lp, "prop": lp, "corr": st.one_of(near, near, st.just(0.0), fin, special),
                                  "ucls": st.sampled_from(UCLS + ["half"])})
    return st.lists(item, min_size=1, max_size=48)


def oracle_floats(batch):
    nt, cls, digs = False, [], []
    from vlib.runner import digest

    for c, r in oracle_owned_cases(batch):
        info = judge(c, *r)
        if info["nt"]:
            nt = True
            digs.append(digest(c))
        cls += info["cls"]
    return {"nt": nt, "cls": cls, "digests": digs, "weight": len(batch), "sample": batch[:3]}


# ------------------------------------------------------------------------------ sub: real keys
def find_zero_draw_seeds(lo: int, hi: int) -> list[int]:
    f = jax.jit(jax.vmap(lambda s: jax.random.uniform(jax.random.PRNGKey(s))))
    found = []
    step = 1 << 22
    for a in range(lo, hi, step):
        s = np.arange(a, min(hi, a + step), dtype=np.int32)
        u = np.asarray(f(jnp.asarray(s)))
        found += [int(x) for x in s[u == 0.0]]
    return found


REAL_TRIPLES = [  # (cur, prop, corr) with a in {0, nan}; and a == 1
    (0.0, -math.inf, 0.0), (-1.0, -1e30, 0.0), (5.0, 0.0, -math.inf), (0.0, math.nan, 0.0), (math.nan, 0.0, 0.0),
    (-math.inf, -math.inf, 0.0), (math.inf, math.inf, 0.0), (0.0, -200.0, 0.0), (0.0, 0.0, math.nan), (math.inf, 0.0, 0.0),
    (0.0, 0.0, 0.0), (0.0, 5.0, 0.0), (-math.inf, 0.0, 0.0), (0.0, 0.0, math.inf), (0.0, math.inf, -3.0), (-3.0, -2.0, 0.5),
]


def oracle_real(case):
    seeds = case["seeds"]
    cur, prop, corr = case["cur"], case["prop"], case["corr"]
    n = len(seeds)
    code, acc, moved, out = eval_real(seeds, np.full(n, cur), np.full(n, prop), np.full(n, corr))
    ures = np.asarray(jax.vmap(lambda s: jax.random.uniform(jax.random.PRNGKey(s)))(jnp.asarray(np.asarray(seeds, np.int32))))
    nt = False
    for i in range(n):
        o = jax.tree_util.tree_map(lambda x: x[i], out)
        c = {"cur": cur, "prop": prop, "corr": corr, "seed": int(seeds[i]), "u_of_key": float(ures[i])}
        info = judge(c, code[i], acc[i], moved[i], o, use_u=False)
        nt |= info["nt"]
    return {"nt": nt, "cls": ["zero-draw-key" if case.get("zero") else "random-key"], "weight": n}


def run_real_keys(ctx):
    if ctx.shard == 0:
        # committed witnesses must still draw exactly 0.0 (else the PRNG changed and the witnesses are void)
        wit = [s for s in ZERO_DRAW_WITNESSES if float(jax.random.uniform(jax.random.PRNGKey(s))) == 0.0]
        span = (1 << 24) if ctx.tier == "quick" else (1 << 28)
        base = 30_000_000 + (ctx.seed % 50) * span
        fresh = find_zero_draw_seeds(base, base + span)
        zero = sorted(set(wit + fresh))
        ctx._st("real_keys")["extra"]["zero_draw_keys"] = len(zero)
        if not zero:
            raise RuntimeError("no PRNG key with a zero uniform draw available: witnesses void and scan empty")
        for cur, prop, corr in REAL_TRIPLES:
            for z in zero:
                ctx.run_case("real_keys", {"seeds": [z], "cur": cur, "prop": prop, "corr": corr, "zero": True}, oracle_real)
    rng = np.random.default_rng([ctx.seed, 5, ctx.shard])
    nkeys = 4096 if ctx.tier == "quick" else 65536
    for cur, prop, corr in REAL_TRIPLES:
        seeds = rng.integers(0, 2**31 - 1, size=nkeys // ctx.nshards).tolist()
        ctx.run_case("real_keys", {"seeds": seeds, "cur": cur, "prop": prop, "corr": corr}, oracle_real)


# ------------------------------------------------------------------------------ sub: frequency (statistical)
def gen_freq():
    from hypothesis import strategies as st
    from vlib.gens import f32

    return st.fixed_dictionaries({
        "cur": f32(-50, 50), "d": f32(-4.5, -0.02), "corr": f32(-2, 2),
        "case_seed": st.integers(0, 2**30),
    })


def oracle_freq(case):
    cur, corr = F32(case["cur"]), F32(case["corr"])
    prop = F32(cur + F32(case["d"]) - corr)
    n0 = 8192

    def stat(n, subseed):
        rng = np.random.default_rng([case["case_seed"], subseed])
        seeds = rng.integers(0, 2**31 - 1, size=n)
        code, acc, moved, out = eval_real(seeds, np.full(n, cur), np.full(n, prop), np.full(n, corr))
        a = float(acc[0])
        require(bool(np.all(acc == acc[0])), "acceptance_prob-depends-on-key", f"{case}")
        k = int(np.sum(out["x"] == 2.0))
        require(int(np.sum(moved != 0)) == k, "moved-flag-wrong", f"{case}: moved={int(np.sum(moved != 0))} accepted={k}")
        return {"accept_freq": stats.z_binom(k, n, a)}

    sig, rep = stats.decide(stat, n0, 1)
    if sig:
        raise Violation("frequency:" + sig, f"{case} {rep}")
    isnan, la, a = oracle_a(cur, prop, corr)
    return {"nt": 0.02 < a < 0.98, "cls": ["0<a<1" if 0 < a < 1 else "a-extreme"], "extra": {"max_abs_z": rep["max_abs_z"]}}


# ------------------------------------------------------------------------------ sub: liesel_state
_LS = {}


def _liesel_setup():
    if _LS:
        return _LS
    sigma = lsl.param(1.5, lsl.Dist(tfd.HalfNormal, scale=2.0), name="sigma")
    mu = lsl.param(0.3, lsl.Dist(tfd.Normal, loc=0.0, scale=10.0), name="mu")
    scale2 = lsl.Var(lsl.Calc(lambda s: s * 2.0, sigma), name="scale2")
    y = lsl.obs(np.array([0.5, -1.0, 2.0], dtype=np.float32), lsl.Dist(tfd.Normal, loc=mu, scale=scale2), name="y")
    model = lsl.GraphBuilder().add(y).build_model()
    iface = gs.LieselInterface(model)
    state0 = model.state

    def run(u, mu0, sig0, mup, sigp, corr):
        st = iface.update_state({"mu": mu0, "sigma": sig0}, state0)
        prop = {"mu": mup, "sigma": sigp}
        _Holder.u = u
        info, out = _mh()(jax.random.PRNGKey(1), iface, prop, st, corr)
        stp = iface.update_state(prop, st)
        return info.error_code, info.acceptance_prob, info.position_moved, out, st, stp, iface.log_prob(st), iface.log_prob(stp)

    _LS.update(iface=iface, run=jax.jit(run), state0=state0)
    return _LS


def gen_liesel():
    from hypothesis import strategies as st

    from vlib.gens import f32 as f
    return st.fixed_dictionaries({
        "mu0": f(-5, 5), "sig0": f(0.05, 5), "mup": f(-5, 5),
        "sigp": st.one_of(f(0.05, 5), f(0.05, 5), f(0.05, 5), f(0.05, 5), f(-2, -0.01), st.just(0.0), st.just(math.nan)),
        "corr": st.one_of(f(-3, 3), f(-3, 3), f(-0.1, 0.1), st.just(0.0), st.sampled_from([math.inf, -math.inf, math.nan])),
        "ucls": st.sampled_from(UCLS + ["half"]),
    })


def oracle_liesel(case):
    L = _liesel_setup()
    args = [jnp.float32(case[k]) for k in ("mu0", "sig0", "mup", "sigp", "corr")]
    with _patched_uniform():
        _Holder.used = False if "probe" not in L else L["probe"]
        code, acc, moved, out, st, stp, lp0, lp1 = L["run"](jnp.float32(0.5), *args)
        L.setdefault("probe", _Holder.used)
        u = _u_for(case["ucls"], float(acc))
        u = 0.5 if u is None else u
        code, acc, moved, out, st, stp, lp0, lp1 = L["run"](jnp.float32(u), *args)
    used = L["probe"]
    code, acc, moved = int(code), float(acc), int(moved)
    lp0, lp1 = F32(lp0), F32(lp1)
    isnan, la, a = oracle_a(lp0, lp1, F32(case["corr"]))
    det = lambda: f"case={case} u={u} code={code} acc={acc} moved={moved} lp0={lp0} lp1={lp1} la={la}"  # noqa: E731
    require(not math.isnan(acc) and 0 <= acc <= 1, "acceptance_prob-outside-[0,1]", det)
    require(code == (90 if isnan else 0), "error-code:" + ("nan-not-reported" if isnan else "spurious"), det)
    if isnan or la == -math.inf:
        require(acc == 0.0, "acceptance_prob:should-be-0", det)
    elif la > 1e-3:
        require(acc == 1.0, "acceptance_prob:should-be-1", det)
    elif -80 < la < -1e-3:
        require(acc > 0 and abs(math.log(acc) - la) <= 1e-4 * (1 + abs(float(lp0)) + abs(float(lp1))), "acceptance_prob:wrong-value", det)
    is_prop = tree_equal_bits(out, stp)
    is_in = tree_equal_bits(out, st)
    same = tree_equal_bits(st, stp)
    require(is_prop or is_in, "returned-state-neither-input-nor-proposal", det)
    accepted = is_prop and not is_in if not same else bool(moved)
    if not same:
        require(bool(moved) == accepted, "moved-flag-wrong", det)
    a_zero = isnan or la == -math.inf or la <= -104.0
    if a_zero:
        require(is_in, "accepted-with-probability-zero", det)
    if acc == 1.0:
        require(is_prop, "rejected-with-probability-one", det)
    if used and (acc > 0.0 or a_zero):
        if u < acc:
            require(is_prop, "rejected-although-u<a", det)
        elif u > acc:
            require(is_in, "accepted-although-u>a", det)
    nt = isnan or acc in (0.0, 1.0) or (acc > 0 and abs(u - acc) <= 2 * EPS * acc)
    return {"nt": bool(nt), "cls": ["nan" if isnan else ("a=0" if acc == 0 else ("a=1" if acc == 1 else "0<a<1")),
                                    "acc" if accepted else "rej"]}


# ------------------------------------------------------------------------------ sub: kernels (RW / MH / IWLS infos)
_K = {}


def _kernel_setup(kind: str):
    if kind in _K:
        return _K[kind]

    def log_prob(s):
        x = s["x"]
        # Gamma(3, 1)-like target on x > 0, -inf outside, NaN island on (-2.5, -2.0)
        lp = jnp.where(x > 0, 2.0 * jnp.log(jnp.where(x > 0, x, 1.0)) - x, -jnp.inf)
        lp = jnp.where((x > -2.5) & (x < -2.0), jnp.nan, lp)
        return lp - 0.5 * jnp.sum(s["b"] ** 2)

    model = gs.DictInterface(log_prob)
    if kind == "rw":
        ker = gs.RWKernel(["x"], initial_step_size=1.0)
    elif kind == "mh":
        def proposal(key, state, step):
            z = jax.random.normal(key)
            x = state["x"]
            new = x + step * (0.3 + z)  # drifting, asymmetric proposal; correction declared as log q(x|x')/q(x'|x)
            fwd = -0.5 * ((new - x) / step - 0.3) ** 2
            bwd = -0.5 * ((x - new) / step - 0.3) ** 2
            return gs.MHProposal({"x": new}, bwd - fwd)

        ker = gs.MHKernel(["x"], proposal, initial_step_size=1.0)
    else:
        ker = gs.IWLSKernel(["x"], initial_step_size=1.0)
    ker.set_model(model)
    from liesel.goose.epoch import EpochConfig, EpochType

    epoch = EpochConfig(EpochType.BURNIN, 10, 1, None).to_state(1, 1)

    def one(key, x, step):
        state = {"x": x, "b": jnp.array([0.5, -0.5], dtype=jnp.float32)}
        ks = ker.init_state(key, state)
        ks.step_size = step
        out = ker.transition(key, ks, state, epoch)
        return out.info.error_code, out.info.acceptance_prob, out.info.position_moved, out.model_state, state, model.log_prob(out.model_state)

    _K[kind] = jax.jit(jax.vmap(one, in_axes=(0, None, None)))
    return _K[kind]


# IWLS on a double-well target: the information matrix 3x^2 - 2 is positive at the current point but negative (no proposal density:
# Cholesky gives NaN) on |x| < sqrt(2/3), where the target itself is finite.  Proposals landing there have an undefined ratio.
DW_EDGE = math.sqrt(2.0 / 3.0)


def _dw_setup():
    if "dw" in _K:
        return _K["dw"]

    def log_prob(s):
        x = s["x"]
        return -0.25 * x ** 4 + x ** 2 - 0.5 * jnp.sum(s["b"] ** 2)

    model = gs.DictInterface(log_prob)
    ker = gs.IWLSKernel(["x"], initial_step_size=1.0)
    ker.set_model(model)
    from liesel.goose.epoch import EpochConfig, EpochType

    epoch = EpochConfig(EpochType.BURNIN, 10, 1, None).to_state(1, 1)

    def one(key, x, step):
        state = {"x": x, "b": jnp.array([0.5, -0.5], dtype=jnp.float32)}
        ks = ker.init_state(key, state)
        ks.step_size = step
        out = ker.transition(key, ks, state, epoch)
        return out.info.error_code, out.info.acceptance_prob, out.model_state["x"]

    _K["dw"] = jax.jit(jax.vmap(one, in_axes=(0, None, None)))
    return _K["dw"]


def gen_dw():
    from hypothesis import strategies as st
    from vlib.gens import f32

    return st.fixed_dictionaries({"x": f32(0.9, 1.8), "neg": st.booleans(), "step": st.sampled_from([0.3, 0.6, 1.0, 2.5]), "case_seed": st.integers(0, 2**30)})


def oracle_dw(case):
    from scipy import stats as sps
    from vlib import stats

    f = _dw_setup()
    x = float(np.float32(case["x"])) * (-1.0 if case["neg"] else 1.0)
    s = float(case["step"])
    F = 3 * x * x - 2
    mu, sd = x + 0.5 * s * s * (-x ** 3 + 2 * x) / F, s / math.sqrt(F)
    p_bad = float(sps.norm.cdf((DW_EDGE - mu) / sd) - sps.norm.cdf((-DW_EDGE - mu) / sd))     # P(proposal has no backward proposal density)
    seen = {}

    def stat(n, subseed):
        keys = jax.random.split(jax.random.PRNGKey((case["case_seed"] + 7919 * subseed) % 2**31), n)
        code, acc, xo = (np.asarray(a) for a in f(keys, jnp.float32(x), jnp.float32(s)))
        bad = code == 90
        require(bool(np.all(acc[bad] == 0) and np.all(xo[bad] == np.float32(x))), "kernel:nan-ratio-not-rejected", lambda: f"{case}")
        require(bool(np.all(np.abs(xo[xo != np.float32(x)]) >= DW_EDGE * (1 - 1e-5))), "kernel:accepted-proposal-with-undefined-ratio",
                lambda: f"accepted x' in the region without backward proposal density: {xo[(xo != np.float32(x)) & (np.abs(xo) < DW_EDGE)][:3].tolist()}; {case}")
        seen["k"], seen["n"] = int(bad.sum()), n
        return {"undefined-ratio-reported-with-code-90": stats.z_binom(int(bad.sum()), n, p_bad)}

    sig, rep = stats.decide(stat, 2048, 1)
    if sig:
        raise Violation("kernel:" + sig + ":frequency-differs-from-probability-of-an-undefined-ratio",
                        f"code 90 reported {seen.get('k')} times in {seen.get('n')} transitions, P(undefined ratio) = {p_bad:.4f}; {rep}; {case}")
    return {"nt": bool(0.01 < p_bad < 0.99), "cls": ["p_bad>1%" if p_bad > 0.01 else "p_bad<=1%"], "extra": {"max_abs_z": rep["max_abs_z"]}}


def gen_kernels():
    from hypothesis import strategies as st
    from vlib.gens import f32

    return st.fixed_dictionaries({"kind": st.sampled_from(["rw", "mh", "iwls"]), "x": f32(0.02, 6.0),
                                  "step": st.sampled_from([0.3, 1.0, 2.5, 6.0]), "case_seed": st.integers(0, 2**30)})


def oracle_kernels(case):
    f = _kernel_setup(case["kind"])
    n = 512
    keys = jax.random.split(jax.random.PRNGKey(case["case_seed"]), n)
    code, acc, moved, out, st_in, lp_out = (np.asarray(x) if not isinstance(x, dict) else x for x in
                                            f(keys, jnp.float32(case["x"]), jnp.float32(case["step"])))
    xo, xi = np.asarray(out["x"]), np.asarray(st_in["x"])
    det = lambda i: f"case={case} i={i} code={code[i]} acc={acc[i]} moved={moved[i]} x_in={xi[i]} x_out={xo[i]}"  # noqa: E731
    for i in range(n):
        require(not np.isnan(acc[i]) and 0 <= acc[i] <= 1, "kernel:acceptance_prob-outside-[0,1]", lambda: det(i))
        changed = xo[i] != xi[i]
        require(bool(moved[i]) == bool(changed), "kernel:moved-flag-wrong", lambda: det(i))
        require(np.array_equal(np.asarray(out["b"])[i], np.asarray(st_in["b"])[i]), "kernel:foreign-key-changed", lambda: det(i))
        if changed:
            require(xo[i] > 0 and np.isfinite(lp_out[i]), "kernel:accepted-zero-density-or-nan-proposal", lambda: det(i))
        if code[i] == 90:
            require(acc[i] == 0 and not changed, "kernel:nan-ratio-not-rejected", lambda: det(i))
        if acc[i] == 0:
            require(not changed, "kernel:accepted-with-probability-zero", lambda: det(i))
        if acc[i] == 1:
            require(changed, "kernel:rejected-with-probability-one", lambda: det(i))
    frac0 = float(np.mean(acc == 0))
    return {"nt": bool(frac0 > 0.01 and np.mean(moved != 0) > 0.02), "cls": [case["kind"], "has-a=0" if frac0 > 0 else "no-a=0",
                                                                              "has-nan" if np.any(code == 90) else "no-nan"], "weight": n}


SUBS = [
    Sub("boundary", oracle_owned, run=run_boundary, what="exhaustive boundary alphabets x u-classes, harness-owned uniform"),
    Sub("floats", oracle_floats, gen=gen_floats, n={"quick": 400, "thorough": 40000},
        what="Hypothesis float32 triples (batches of <=48), harness-owned uniform"),
    Sub("real_keys", oracle_real, run=run_real_keys, what="real PRNG keys incl. zero-draw keys; distribution-free laws"),
    Sub("frequency", oracle_freq, gen=gen_freq, n={"quick": 16, "thorough": 400}, shrink={"quick": False, "thorough": False},
        what="acceptance frequency over 8192 real keys ~ Binomial(n, reported a)"),
    Sub("liesel_state", oracle_liesel, gen=gen_liesel, n={"quick": 400, "thorough": 20000},
        what="Liesel graph model: returned state is exactly input / update_state(proposal)"),
    Sub("iwls_undefined", oracle_dw, gen=gen_dw, n={"quick": 24, "thorough": 600}, shrink={"quick": False, "thorough": False}, min_per_shard=3,
        what="IWLS on a double-well target: proposals without a backward proposal density (information not positive definite) are reported with code 90 as often as they occur"),
    Sub("kernels", oracle_kernels, gen=gen_kernels, n={"quick": 24, "thorough": 600}, shrink={"quick": False, "thorough": True},
        what="RW / MH / IWLS transitions on a support-constrained target (512 keys per case)"),
]
