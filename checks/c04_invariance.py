"""C04 — Every built-in kernel leaves the target distribution invariant.

Joint ("prior-predictive") trick: for model families that can be sampled jointly, (theta_0, y) ~ p(theta) p(y | theta) is drawn with numpy,
so theta_0 | y is an EXACT posterior draw for every family, conjugate or not.  One chain per joint draw (N = 8192 chains, each with its own
data set inside its model state) is run for K transitions through the real Engine with fixed tuning (burn-in / posterior epoch, no
adaptation).  Invariance  =>  (theta_K, y) is again a joint draw.  Tests (policy of DESIGN 2.6): KS of every prior-PIT coordinate of
theta_K against U(0,1); paired-drift z-tests of u_j, u_j^2, u_i u_j, u_j v(y) and of the log-likelihood between step 0 and step K.

Families: normal mean / log-scale, linear regression, Poisson and logistic regression (non-conjugate), bivariate-normal hierarchy with exact
Gibbs conditionals; as dict models and as Liesel graphs (incl. a Var.transform-ed scale parameter).  Kernels: NUTS, HMC, IWLS, RW, MH with an
asymmetric drift proposal and its declared correction, Gibbs; alone and in sequences over disjoint blocks.
"""
from __future__ import annotations

import math

import numpy as np
from scipy import special as sp
from scipy import stats as sps

from vlib import stats
from vlib.lz import gs, jax, jnp, lsl, tfb, tfd
from vlib.runner import Sub, Violation, require

from liesel.goose.epoch import EpochConfig, EpochType
from liesel.goose.kernel_sequence import KernelSequence

PROPERTY = "C04"
RULE = ("cases = (family, dict or Liesel model, kernel sequence over disjoint blocks from {NUTS, HMC, IWLS, RW, MH-drift, Gibbs}, fixed tuning: "
        "step size over 1.5 decades, diagonal / dense inverse mass matrix, tree depth / integration steps, K in 1..25 transitions, epoch type "
        "burn-in or posterior, data size 3-12, seeds); N = 8192 chains per case (confirmation stage 32768). Non-trivial = acceptance rate strictly between "
        "2% and 98% (or NUTS / Gibbs), every block moved in >= 50% of chains, K >= 3. Distinct = SHA-1 of the case")
ASSUMPTIONS = [
    "statistical decision: |z| > 6 (KS p < 2e-9) at N, then three independent confirmations at 4N with |z| > 4 and the same sign",
    "detection floor: a stationary-distribution error that shifts a PIT moment by about 0.1 posterior sd after K steps at N = 8192",
    "joint draws (theta, y) are generated with numpy, independent of liesel's simulate()",
]
SHARDS = {"quick": 16, "thorough": 16}
TECHNIQUE = ("Hypothesis-generated model families / kernel sequences / fixed tunings; exact-start chains from joint prior-predictive draws run "
             "through the real Engine; KS and paired-drift z-tests of PIT statistics with independent confirmation")
LEVEL_TEXT = ("Generated-configuration statistical testing with an exact reference distribution: thousands of chains start from exact posterior "
              "draws (joint sampling), so any number of invariant transitions must leave the joint law of (theta, y) unchanged; deviations are "
              "decided by z / KS tests under an explicit false-alarm budget with confirmation. Biases below the stated floor or outside the "
              "generated families are not detected.")
LEVEL_NOTE = "Trusts numpy's samplers for the joint draws and scipy.stats cdfs for the PIT transforms."

DRIFT = 0.3


# ------------------------------------------------------------------------------ families
class Family:
    blocks: dict     # block name -> dimension
    name: str

    def __init__(self, c):
        self.n = c["n"]
        rng = np.random.default_rng([c["data_seed"], 4])
        self.X = np.c_[np.ones(self.n), rng.normal(size=(self.n, 1))].astype(np.float64)


class NormalMS(Family):
    name = "normal_ms"
    blocks = {"mu": (), "lsig": ()}

    def sample(self, rng, N):
        mu = rng.normal(0, 2.0, size=N)
        ls = rng.normal(0, 0.5, size=N)
        y = mu[:, None] + np.exp(ls)[:, None] * rng.normal(size=(N, self.n))
        return {"mu": mu, "lsig": ls}, y

    def logp(self, s):
        mu, ls, y = s["mu"], s["lsig"], s["y"]
        return (-0.5 * (mu / 2.0) ** 2 - 0.5 * (ls / 0.5) ** 2 + jnp.sum(-0.5 * ((y - mu) / jnp.exp(ls)) ** 2 - ls))

    def pit(self, th):
        return {"mu": sps.norm.cdf(th["mu"], 0, 2.0), "lsig": sps.norm.cdf(th["lsig"], 0, 0.5)}

    def loglik(self, th, y):
        return np.sum(sps.norm.logpdf(y, th["mu"][:, None], np.exp(th["lsig"])[:, None]), axis=1)

    def liesel(self, transformed):
        mu = lsl.param(np.float32(0.0), lsl.Dist(tfd.Normal, loc=np.float32(0.0), scale=np.float32(2.0)), name="mu")
        if transformed:
            sigma = lsl.param(np.float32(1.0), lsl.Dist(tfd.LogNormal, loc=np.float32(0.0), scale=np.float32(0.5)), name="sigma")
            lsig = sigma.transform(tfb.Exp())
            scale = sigma
            keymap = {"mu": "mu", "lsig": "sigma_transformed"}
        else:
            lsig = lsl.param(np.float32(0.0), lsl.Dist(tfd.Normal, loc=np.float32(0.0), scale=np.float32(0.5)), name="lsig")
            scale = lsl.Var(lsl.Calc(jnp.exp, lsig), name="scale")
            keymap = {"mu": "mu", "lsig": "lsig"}
        y = lsl.obs(np.zeros(self.n, dtype=np.float32), lsl.Dist(tfd.Normal, loc=mu, scale=scale), name="y")
        return lsl.GraphBuilder().add(y).build_model(), keymap


class Regr(Family):
    """beta (2,) ~ N(0, s0^2 I);  y ~ lik(X beta)"""

    blocks = {"beta": (2,)}
    s0 = 1.0

    def sample(self, rng, N):
        beta = rng.normal(0, self.s0, size=(N, 2))
        eta = beta @ self.X.T
        return {"beta": beta}, self.draw_y(rng, eta)

    def pit(self, th):
        return {"beta": sps.norm.cdf(th["beta"], 0, self.s0)}

    def logp(self, s):
        eta = jnp.asarray(self.X, dtype=jnp.float32) @ s["beta"]
        return -0.5 * jnp.sum((s["beta"] / self.s0) ** 2) + jnp.sum(self.lik_jnp(s["y"], eta))

    def loglik(self, th, y):
        return np.sum(self.lik_np(y, th["beta"] @ self.X.T), axis=1)

    def liesel(self, transformed):
        beta = lsl.param(np.zeros(2, dtype=np.float32), lsl.Dist(tfd.Normal, loc=np.float32(0.0), scale=np.float32(self.s0)), name="beta")
        eta = lsl.Var(lsl.Calc(lambda X, b: X @ b, lsl.obs(self.X.astype(np.float32), name="X"), beta), name="eta")
        y = lsl.obs(np.zeros(self.n, dtype=np.float32), self.liesel_dist(eta), name="y")
        return lsl.GraphBuilder().add(y).build_model(), {"beta": "beta"}


class LinReg(Regr):
    name = "linreg"
    s0 = 2.0

    def draw_y(self, rng, eta):
        return eta + rng.normal(size=eta.shape)

    def lik_jnp(self, y, eta):
        return -0.5 * (y - eta) ** 2

    def lik_np(self, y, eta):
        return sps.norm.logpdf(y, eta, 1.0)

    def liesel_dist(self, eta):
        return lsl.Dist(tfd.Normal, loc=eta, scale=np.float32(1.0))

    def fisher_w(self, eta):
        return jnp.ones_like(eta)


class Poisson(Regr):
    name = "poisson"
    s0 = 0.7

    def draw_y(self, rng, eta):
        return rng.poisson(np.exp(eta)).astype(np.float64)

    def lik_jnp(self, y, eta):
        return y * eta - jnp.exp(eta)

    def lik_np(self, y, eta):
        return sps.poisson.logpmf(y, np.exp(eta))

    def liesel_dist(self, eta):
        return lsl.Dist(tfd.Poisson, log_rate=eta)

    def fisher_w(self, eta):
        return jnp.exp(eta)


class Logistic(Regr):
    name = "logistic"
    s0 = 1.5

    def draw_y(self, rng, eta):
        return (rng.random(eta.shape) < sp.expit(eta)).astype(np.float64)

    def lik_jnp(self, y, eta):
        return y * eta - jnp.logaddexp(0.0, eta)

    def lik_np(self, y, eta):
        return y * eta - np.logaddexp(0.0, eta)

    def liesel_dist(self, eta):
        return lsl.Dist(tfd.Bernoulli, logits=eta)

    def fisher_w(self, eta):
        p = jax.nn.sigmoid(eta)
        return p * (1 - p)


class BVN(Family):
    """(a, b) bivariate normal prior with correlation rho; y_i ~ N(a + b, 1); exact Gibbs conditionals for both blocks"""

    name = "bvn"
    blocks = {"a": (), "b": ()}
    rho = 0.6

    def sample(self, rng, N):
        a = rng.normal(size=N)
        b = self.rho * a + math.sqrt(1 - self.rho**2) * rng.normal(size=N)
        y = (a + b)[:, None] + rng.normal(size=(N, self.n))
        return {"a": a, "b": b}, y

    def logp(self, s):
        a, b, y, r = s["a"], s["b"], s["y"], self.rho
        return -0.5 * (a * a - 2 * r * a * b + b * b) / (1 - r * r) + jnp.sum(-0.5 * (y - a - b) ** 2)

    def pit(self, th):
        return {"a": sps.norm.cdf(th["a"]), "b": sps.norm.cdf(th["b"])}

    def loglik(self, th, y):
        return np.sum(sps.norm.logpdf(y, (th["a"] + th["b"])[:, None], 1.0), axis=1)

    def gibbs(self, which, getter):
        other = "b" if which == "a" else "a"
        r, n = self.rho, self.n

        def fn(key, state):
            o, y = getter(state, other), getter(state, "y")
            prec = 1.0 / (1 - r * r) + n
            mean = (r * o / (1 - r * r) + jnp.sum(y - o)) / prec
            return {which: mean + jax.random.normal(key) / jnp.sqrt(prec)}

        return fn

    def liesel(self, transformed):
        a = lsl.param(np.float32(0.0), lsl.Dist(tfd.Normal, loc=np.float32(0.0), scale=np.float32(1.0)), name="a")
        bloc = lsl.Calc(lambda a: jnp.float32(self.rho) * jnp.asarray(a), a)     # (python float * numpy 0-d float32 would become float64)
        b = lsl.param(np.float32(0.0), lsl.Dist(tfd.Normal, loc=bloc, scale=np.float32(math.sqrt(1 - self.rho**2))), name="b")
        mu = lsl.Var(lsl.Calc(lambda a, b: jnp.asarray(a) + jnp.asarray(b), a, b), name="mu")
        y = lsl.obs(np.zeros(self.n, dtype=np.float32), lsl.Dist(tfd.Normal, loc=mu, scale=np.float32(1.0)), name="y")
        return lsl.GraphBuilder().add(y).build_model(), {"a": "a", "b": "b"}


class GammaPrec(Family):
    """precision tau ~ Gamma(2, 1) sampled on its natural (bounded) scale; y_i ~ N(0, tau^-1/2).  Outside the support the log-density
    is NaN (log of a negative number), so a correct kernel must reject such proposals; posterior mass sits near the boundary."""

    name = "gamma_prec"
    blocks = {"tau": ()}

    def sample(self, rng, N):
        tau = rng.gamma(2.0, 1.0, size=N)
        y = rng.normal(size=(N, self.n)) / np.sqrt(tau)[:, None]
        return {"tau": tau}, y

    def logp(self, s):
        tau, y = s["tau"], s["y"]
        return jnp.log(tau) - tau + 0.5 * self.n * jnp.log(tau) - 0.5 * tau * jnp.sum(y * y)

    def pit(self, th):
        return {"tau": sps.gamma.cdf(th["tau"], 2.0)}

    def loglik(self, th, y):
        return np.sum(sps.norm.logpdf(y, 0.0, 1.0 / np.sqrt(np.maximum(th["tau"], 1e-300))[:, None]), axis=1)

    def liesel(self, transformed):
        tau = lsl.param(np.float32(1.0), lsl.Dist(tfd.Gamma, concentration=np.float32(2.0), rate=np.float32(1.0)), name="tau")
        scale = lsl.Var(lsl.Calc(lambda t: 1.0 / jnp.sqrt(jnp.asarray(t)), tau), name="scale")
        y = lsl.obs(np.zeros(self.n, dtype=np.float32), lsl.Dist(tfd.Normal, loc=np.float32(0.0), scale=scale), name="y")
        return lsl.GraphBuilder().add(y).build_model(), {"tau": "tau"}


class SpikeSlab(Family):
    """delta in {0, 1} (finite-discrete prior), beta | delta ~ N(0, s[delta]), y_i ~ N(beta, 1): the prior of ANOTHER parameter depends on the
    discrete one.  delta is sampled by the library's finite-discrete Gibbs kernel (Liesel models) or an exact Gibbs conditional (dict models)."""

    name = "spike_slab"
    blocks = {"delta": (), "beta": ()}
    p1, s = 0.4, (0.3, 2.0)

    def sample(self, rng, N):
        delta = (rng.random(N) < self.p1).astype(np.float64)
        beta = rng.normal(size=N) * np.where(delta == 1, self.s[1], self.s[0])
        y = beta[:, None] + rng.normal(size=(N, self.n))
        return {"delta": delta, "beta": beta}, y

    def logp(self, s):
        d, b, y = s["delta"], s["beta"], s["y"]
        sd = jnp.where(d == 1, self.s[1], self.s[0])
        return jnp.where(d == 1, math.log(self.p1), math.log(1 - self.p1)) - 0.5 * (b / sd) ** 2 - jnp.log(sd) + jnp.sum(-0.5 * (y - b) ** 2)

    def pit(self, th):
        u = np.random.default_rng(20240521).random(len(th["delta"]))          # the same randomisation before and after (randomised PIT of a discrete value)
        ud = np.where(th["delta"] == 1, (1 - self.p1) + u * self.p1, u * (1 - self.p1))
        return {"delta": ud, "beta": (1 - self.p1) * sps.norm.cdf(th["beta"], 0, self.s[0]) + self.p1 * sps.norm.cdf(th["beta"], 0, self.s[1])}

    def loglik(self, th, y):
        return np.sum(sps.norm.logpdf(y, th["beta"][:, None], 1.0), axis=1)

    def gibbs(self, which, getter):
        def fn(key, state):
            b = getter(state, "beta")
            l1 = math.log(self.p1) - 0.5 * (b / self.s[1]) ** 2 - math.log(self.s[1])
            l0 = math.log(1 - self.p1) - 0.5 * (b / self.s[0]) ** 2 - math.log(self.s[0])
            return {"delta": (jax.random.uniform(key) < jax.nn.sigmoid(l1 - l0)).astype(jnp.float32)}

        return fn

    def liesel(self, transformed):
        delta = lsl.param(np.float32(0.0), lsl.Dist(tfd.FiniteDiscrete, outcomes=np.array([0.0, 1.0], dtype=np.float32), probs=np.array([1 - self.p1, self.p1], dtype=np.float32)), name="delta")
        sd = lsl.Var(lsl.Calc(lambda d: jnp.where(jnp.asarray(d) == 1, jnp.float32(self.s[1]), jnp.float32(self.s[0])), delta), name="sd")
        beta = lsl.param(np.float32(0.0), lsl.Dist(tfd.Normal, loc=np.float32(0.0), scale=sd), name="beta")
        y = lsl.obs(np.zeros(self.n, dtype=np.float32), lsl.Dist(tfd.Normal, loc=beta, scale=np.float32(1.0)), name="y")
        self.lsl_model = lsl.GraphBuilder().add(y).build_model()
        return self.lsl_model, {"delta": "delta", "beta": "beta"}


FAMILIES = {f.name: f for f in (NormalMS, LinReg, Poisson, Logistic, BVN, GammaPrec, SpikeSlab)}
GRADIENT = ["nuts", "hmc", "iwls", "rw", "mh"]


def gen():
    from hypothesis import strategies as st

    @st.composite
    def g(draw):
        fam = draw(st.sampled_from(sorted(FAMILIES) + ["bvn", "normal_ms", "poisson", "logistic", "spike_slab"]))
        blocks = list(FAMILIES[fam].blocks)
        joint = draw(st.integers(0, 3)) == 0 if len(blocks) > 1 else True          # mostly separate blocks: sequences of kernels
        if fam == "spike_slab":
            joint = False                                                           # a discrete and a continuous block
        groups = [blocks] if joint else [[b] for b in draw(st.permutations(blocks))]
        kernels = []
        for grp in groups:
            kinds = list(GRADIENT) if fam != "gamma_prec" else ["rw", "rw", "mh", "iwls"]     # natural-scale sampling of a bounded parameter
            if fam in ("linreg", "poisson", "logistic"):
                kinds += ["iwls_fisher", "iwls_fisher"]
            if fam == "spike_slab" and grp == ["delta"]:
                kinds = ["disc"]
            if fam == "bvn" and len(grp) == 1:
                kinds += ["gibbs", "gibbs", "gibbs"]
            kernels.append({"keys": list(grp), "kind": draw(st.sampled_from(kinds)), "step": draw(st.sampled_from([0.1, 0.2, 0.4, 0.8, 1.5])),
                            "dense": draw(st.booleans()), "depth": draw(st.integers(2, 5)), "leap": draw(st.integers(2, 6)),
                            "imm": draw(st.sampled_from([0.5, 1.0, 2.0]))})
        return {"family": fam, "liesel": draw(st.booleans()), "transformed": draw(st.booleans()), "kernels": kernels, "K": draw(st.integers(1, 25)),
                "n": draw(st.integers(3, 12)), "epoch": draw(st.sampled_from([3, 4])), "auto_off": draw(st.booleans()), "chunk_pick": draw(st.integers(0, 5)), "data_seed": draw(st.integers(0, 10**6)), "case_seed": draw(st.integers(0, 2**30))}

    return g()


def make_kernel(k, fam, keymap, model_iface, getter):
    keys = [keymap[x] for x in k["keys"]]
    dim = sum(int(np.prod(fam.blocks[x])) if fam.blocks[x] else 1 for x in k["keys"])
    kind, s = k["kind"], k["step"]
    if kind == "rw":
        return gs.RWKernel(keys, initial_step_size=s)
    if kind == "iwls":
        return gs.IWLSKernel(keys, initial_step_size=min(s * 1.5, 1.5))
    if kind == "iwls_fisher":
        # user-supplied information matrix (expected Fisher information + prior precision): depends on the sampled block for Poisson / logistic
        Xj = jnp.asarray(fam.X, dtype=jnp.float32)

        def chol_info_fn(state):
            beta = getter(state, "beta")
            w = fam.fisher_w(Xj @ beta)
            return jnp.linalg.cholesky(Xj.T @ (w[:, None] * Xj) + jnp.eye(2, dtype=jnp.float32) / fam.s0 ** 2)

        return gs.IWLSKernel(keys, chol_info_fn=chol_info_fn, initial_step_size=min(s * 1.5, 1.5))
    if kind in ("nuts", "hmc"):
        imm = jnp.full((dim,), k["imm"], dtype=jnp.float32) if not k["dense"] else jnp.eye(dim, dtype=jnp.float32) * k["imm"] + 0.1 * (jnp.ones((dim, dim)) - jnp.eye(dim))
        if kind == "nuts":
            return gs.NUTSKernel(keys, initial_step_size=s * 0.5, initial_inverse_mass_matrix=imm, max_treedepth=k["depth"], mm_diag=not k["dense"])
        return gs.HMCKernel(keys, initial_step_size=s * 0.5, initial_inverse_mass_matrix=imm, num_integration_steps=k["leap"], mm_diag=not k["dense"])
    if kind == "mh":
        def proposal(key, state, step):
            pos = model_iface.extract_position(keys, state)
            subkeys = jax.random.split(key, len(keys))
            new, corr = {}, 0.0
            for kk, sk in zip(keys, subkeys):
                x = pos[kk]
                z = jax.random.normal(sk, jnp.shape(x))
                nx = x + step * (DRIFT + z)
                corr = corr + (-0.5 * jnp.sum(((x - nx) / step - DRIFT) ** 2)) - (-0.5 * jnp.sum(((nx - x) / step - DRIFT) ** 2))
                new[kk] = nx
            return gs.MHProposal(new, corr)

        return gs.MHKernel(keys, proposal, initial_step_size=s)
    if kind == "disc" and getattr(fam, "lsl_model", None) is not None and hasattr(model_iface, "_model"):
        from liesel.model.goose import finite_discrete_gibbs_kernel

        return finite_discrete_gibbs_kernel(keymap["delta"], fam.lsl_model)      # the library's own Gibbs kernel for categorical parameters
    # exact Gibbs conditional (bvn; spike_slab on dict models)
    which = k["keys"][0]
    inner = fam.gibbs(which, getter)

    def fn(key, state):
        return {keymap[which]: inner(key, state)[which]}

    return gs.GibbsKernel([keymap[which]], fn)


def run_case(c, N, subseed):
    fam = FAMILIES[c["family"]](c)
    rng = np.random.default_rng([c["case_seed"], subseed, 44])
    th0, y = fam.sample(rng, N)
    if c["liesel"]:
        model, keymap = fam.liesel(c["transformed"] and c["family"] == "normal_ms")
        if c.get("auto_off"):
            model.auto_update = False          # documented performance switch of the user's model; the interface must not depend on it
        iface = gs.LieselInterface(model)
        pos = {keymap[k]: jnp.asarray(np.asarray(v, dtype=np.float32)) for k, v in th0.items()}
        pos["y"] = jnp.asarray(y.astype(np.float32))
        states = jax.vmap(iface.update_state, in_axes=(0, None))(pos, model.state)

        def getter(state, name):
            return iface.extract_position([keymap.get(name, name)], state)[keymap.get(name, name)]
    else:
        keymap = {k: k for k in fam.blocks}
        iface = gs.DictInterface(fam.logp)
        states = {k: jnp.asarray(np.asarray(v, dtype=np.float32)) for k, v in th0.items()}
        states["y"] = jnp.asarray(y.astype(np.float32))

        def getter(state, name):
            return state[name]
    kernels = []
    for i, k in enumerate(c["kernels"]):
        ker = make_kernel(k, fam, keymap, iface, getter)
        ker.identifier = f"k{i}"
        ker.set_model(iface)
        kernels.append(ker)
    K = c["K"]
    divs = [d for d in range(1, K + 1) if K % d == 0]
    chunk = divs[-1 - (c.get("chunk_pick", 0) % len(divs))]          # jitted chunk length: K itself (pick 0) or a smaller divisor of K
    eng = gs.Engine(seeds=jax.random.split(jax.random.PRNGKey((c["case_seed"] + 31 * subseed) % 2**31), N), model_states=states,
                    kernel_sequence=KernelSequence(kernels), epoch_configs=[EpochConfig(EpochType.INITIAL_VALUES, 1, 1, None), EpochConfig(EpochType(c["epoch"]), K, 1, None)],
                    jitted_sample_duration=chunk, model=iface, position_keys=[keymap[k] for k in fam.blocks], store_kernel_states=True, show_progress=False)
    eng.sample_all_epochs()
    res = eng.get_results()
    # the premise of the property: in burn-in and posterior epochs the tuning parameters are held fixed
    for ki, ks in enumerate(res.kernel_states.unwrap().combine_all().unwrap()):
        for f in ("step_size", "inverse_mass_matrix"):
            if hasattr(ks, f):
                a = np.asarray(getattr(ks, f))
                require(bool(np.all(a == a[:, :1])), "tuning-not-held-fixed-in-burnin-or-posterior-epoch:" + c["kernels"][ki]["kind"],
                        f"{f} of kernel #{ki} changes between transitions of a non-adaptation epoch (type {c['epoch']}); {c}")
    pos = res.get_samples()
    thK = {k: np.asarray(pos[keymap[k]], dtype=np.float64)[:, -1] for k in fam.blocks}
    th0r = {k: np.asarray(pos[keymap[k]], dtype=np.float64)[:, 0] for k in fam.blocks}
    tis = res.transition_infos.combine_all().unwrap()
    accept = {kid: float(np.mean(np.asarray(ti.acceptance_prob))) for kid, ti in tis.items()}
    errs = {kid: float(np.mean(np.asarray(ti.error_code) != 0)) for kid, ti in tis.items()}
    moved = {k: float(np.mean(np.any((thK[k] != th0r[k]).reshape(N, -1), axis=1))) for k in fam.blocks}
    return fam, th0r, thK, y, accept, moved, errs


def statistics(fam, th0, thK, y):
    u0, uK = fam.pit(th0), fam.pit(thK)
    cols0, colsK, names = [], [], []
    for k in fam.blocks:
        a0, aK = u0[k].reshape(len(y), -1), uK[k].reshape(len(y), -1)
        for j in range(a0.shape[1]):
            cols0.append(a0[:, j])
            colsK.append(aK[:, j])
            names.append(f"{k}{j}")
    U0, UK = np.stack(cols0, axis=1), np.stack(colsK, axis=1)
    v = sps.norm.cdf((y.mean(axis=1) - np.mean(y.mean(axis=1))) / (np.std(y.mean(axis=1)) + 1e-12))       # bounded data statistic
    out = {}
    for j, nm in enumerate(names):
        out[f"ks_{nm}"] = stats.ks_uniform_z(np.clip(UK[:, j], 0, 1))
        out[f"drift_u_{nm}"] = stats.z_mean(UK[:, j] - U0[:, j])
        out[f"drift_u2_{nm}"] = stats.z_mean(UK[:, j] ** 2 - U0[:, j] ** 2)
        out[f"drift_uv_{nm}"] = stats.z_mean((UK[:, j] - U0[:, j]) * v)
        for l in range(j + 1, len(names)):
            out[f"drift_uu_{nm}_{names[l]}"] = stats.z_mean(UK[:, j] * UK[:, l] - U0[:, j] * U0[:, l])
    ll0, llK = fam.loglik(th0, y), fam.loglik(thK, y)
    d = np.clip(llK - ll0, -50, 50)
    out["drift_loglik"] = stats.z_mean(d)
    return out


def oracle(c):
    info = {}

    def stat(n, subseed):
        fam, th0, thK, y, accept, moved, errs = run_case(c, n, subseed)
        info.update(accept=accept, moved=moved, errs=errs)
        return statistics(fam, th0, thK, y)

    N = 8192
    sig, rep = stats.decide(stat, N, 1)
    if sig:
        kinds = "+".join(k["kind"] for k in c["kernels"])
        raise Violation(f"target-not-invariant:{kinds}", f"{sig}: {rep}; acceptance={info.get('accept')}; {c}")
    acc_ok = all((0.02 < a < 0.98) or c["kernels"][int(kid[1:])]["kind"] in ("nuts", "gibbs", "disc") for kid, a in info["accept"].items())
    nt = acc_ok and all(m >= 0.5 for kk, m in info["moved"].items() if kk != "delta") and c["K"] >= 3
    cls = [c["family"], "liesel" if c["liesel"] else "dict", "+".join(k["kind"] for k in c["kernels"]), "K>=3" if c["K"] >= 3 else "K<3",
           "acc-ok" if acc_ok else "acc-extreme", "moved" if all(m >= 0.5 for kk, m in info["moved"].items() if kk != "delta") else "stuck",
           "auto-off" if (c.get("auto_off") and c["liesel"]) else "auto-on",
           "multi-chunk" if (c.get("chunk_pick", 0) % len([d for d in range(1, c["K"] + 1) if c["K"] % d == 0])) else "one-chunk"]
    return {"nt": bool(nt), "cls": cls, "extra": {"max_abs_z": rep["max_abs_z"], "suspicious": len(rep["suspicious"])}}


SUBS = [
    Sub("invariance", oracle, gen=gen, n={"quick": 80, "thorough": 1200}, shrink={"quick": False, "thorough": False}, min_per_shard=5,
        what="exact-start chains from joint draws; KS + paired-drift tests of PIT statistics after K transitions"),
]
