"""C18 — Custom distributions and bijectors are mathematically consistent.

Sub-oracles (float32 on even shards, jax_enable_x64 on odd shards; tolerances follow the precision)
  mvnd_logprob   degenerate MVN: closed-form density on the range space (numpy eigh, float64), null-space invariance,
                 agreement across constructors (__init__, from_penalty, from_penalty_smooth; +-rank, +-log_pdet), batch shapes
  mvnd_samples   samples orthogonal to the null space, whitened range-space coordinates ~ N(0, I)  (statistical)
  bijector       AlgebraicSigmoid: inverse o forward = id, forward o inverse = id, log-det-Jacobians = log-derivatives
                 (closed form and autodiff of the implementation's own forward)
  copula         GaussianCopula log-density = closed-form bivariate Gaussian copula density for dependence in (-1, 1), batches,
                 validate_args on/off; unit mass of c(u, .) by quadrature; uniform marginals of samples (statistical)
"""
from __future__ import annotations

import math

import numpy as np
from scipy import stats as sps

from vlib import stats
from vlib.lz import jax, jnp
from vlib.runner import Sub, Violation, require

from liesel.bijectors import AlgebraicSigmoid
from liesel.distributions import GaussianCopula, MultivariateNormalDegenerate

PROPERTY = "C18"
RULE = ("mvnd: dimension 1-8, every rank, difference penalties (order 1-3) and random Q diag(lambda) Q^T, variance / smoothing 1e-3..1e3, "
        "batch shapes (), (3,), (2,3) on loc / penalty scale, points in and off the range space, all constructor variants; bijector: x in "
        "+-[0, 1e4] (x64) / +-[0, 100] (float32), y up to 1-1e-6; copula: dependence in (-0.999, 0.999) incl. batches, points of the open unit "
        "square incl. 1e-6 from the edges, validation on/off. Non-trivial = rank-deficient with off-range point or broadcasting batch shapes "
        "(mvnd), |x| > 1 (bijector), negative dependence or batch (copula). Distinct = SHA-1 of the case")
ASSUMPTIONS = [
    "float32 mode: rank is supplied (the class's rank auto-detection uses an absolute eigenvalue tolerance of 1e-6, which float32 eigen-noise "
    "of scaled penalties exceeds - a numerical limit outside the property's domain); rank-free constructors are exercised under x64",
    "float32 sampling is exercised on precisions of spectral norm <= 1 for the same reason; full family under x64",
    "sample-based sub-checks are statistical: |z| > 6 then three confirmations at 4N with |z| > 4",
]
SHARDS = {"quick": 8, "thorough": 16}
TECHNIQUE = ("Hypothesis-generated matrices / batch shapes / points against float64 closed forms (numpy eigh, scipy); round-trip and "
             "autodiff cross-checks for the bijector; quadrature and KS tests for the copula; float32 and x64 passes")
LEVEL_TEXT = ("Generated-input testing against independent float64 closed forms: Gaussian density on the range space, null-space "
              "invariance, pairwise constructor agreement, sample geometry and covariance (statistical, with confirmation), bijector "
              "round-trips and Jacobians, closed-form copula density with and without validation, unit mass by quadrature. "
              "Exploration; float32 comparisons carry stated tolerances, the x64 pass narrows them to 1e-9.")
LEVEL_NOTE = "Trusts numpy.linalg.eigh / scipy.stats.norm in float64 as references."


def shard_env(i, n):
    return {"VERIF_X64": "1"} if i % 2 == 1 else {"VERIF_X64": "0"}


def x64() -> bool:
    return bool(jax.config.jax_enable_x64)


def fdtype():
    return np.float64 if x64() else np.float32


# ------------------------------------------------------------------------------ penalties
def diff_penalty(d, order):
    D = np.eye(d)
    for _ in range(order):
        D = np.diff(D, axis=0)
    return D.T @ D


def random_penalty(d, r, seed, lam_lo=0.05, lam_hi=5.0):
    rng = np.random.default_rng([seed, 18])
    Q, _ = np.linalg.qr(rng.normal(size=(d, d)))
    lam = np.exp(rng.uniform(math.log(lam_lo), math.log(lam_hi), size=r))
    U = Q[:, :r]
    return (U * lam) @ U.T


def build_penalty(c):
    d = c["d"]
    if c["pen"] == "zero":
        return np.zeros((d, d)), 0            # flat "prior": rank 0, the range space is {0} and the density on it is 1
    if c["pen"] == "diff":
        order = min(c["order"], d - 1)
        K = diff_penalty(d, order) if order >= 1 else np.eye(d)
        r = d - order
    else:
        r = max(1, min(c["r"], d))
        K = random_penalty(d, r, c["seed"])
    K = (K + K.T) / 2
    return K, r


def gen_mvnd():
    from hypothesis import strategies as st
    from vlib.gens import f32

    return st.fixed_dictionaries({
        "d": st.integers(1, 8), "pen": st.sampled_from(["diff", "diff", "diff", "random", "random", "zero"]), "order": st.integers(0, 3), "r": st.integers(1, 8),
        "seed": st.integers(0, 10**6), "logscale": f32(-3, 3), "ctor": st.sampled_from(["init", "penalty", "smooth"]),
        "give_rank": st.booleans(), "give_log_pdet": st.booleans(),
        "loc_batch": st.sampled_from([[], [], [3], [2, 3], [1]]), "scale_batch": st.sampled_from([[], [], [3], [2, 3]]),
        "offrange": st.booleans(), "int_pen": st.booleans(),
    })


def ref_logprob(P, r, mu, x):
    """float64 Gaussian density on the range space of P (rank r known by construction)."""
    w, V = np.linalg.eigh(P)
    top = w[len(w) - r:]
    logpdet = np.sum(np.log(top)) if r else 0.0
    dlt = x - mu
    return -0.5 * (r * math.log(2 * math.pi) - logpdet) - 0.5 * dlt @ P @ dlt, V[:, : len(w) - r]


def int_typed(c):
    # (float32 shards only: jax promotes int32 matrices to float32 also under x64, so the x64 tolerances would not apply)
    return bool(c.get("int_pen")) and not x64() and c["pen"] == "diff" and min(c["order"], c["d"] - 1) >= 1


def construct(c, K, r, scale, loc, ctor, give_rank, give_log_pdet):
    dt = fdtype()
    Kj = jnp.asarray(K.astype(dt))
    locj = jnp.asarray(loc.astype(dt))
    sc = jnp.asarray(np.asarray(scale, dtype=dt))
    w = np.linalg.eigvalsh(K)
    lp_pen = float(np.sum(np.log(w[len(w) - r:]))) if r else 0.0
    if int_typed(c) and ctor in ("init", "smooth"):
        # an integer-typed penalty / precision matrix (difference penalties are integer matrices), unit scale
        Ki = jnp.asarray(K.astype(np.int32))
        kw = {}
        if give_rank:
            kw["rank"] = r
        if give_log_pdet:
            kw["log_pdet"] = dt(lp_pen)
        if ctor == "init":
            return MultivariateNormalDegenerate(loc=locj, prec=Ki, **kw)
        return MultivariateNormalDegenerate.from_penalty_smooth(loc=locj, smooth=1, pen=Ki, **kw)
    if ctor == "init":
        # scale acts as a precision multiplier
        prec = Kj * jnp.expand_dims(sc, (-2, -1))
        kw = {}
        if give_rank:
            kw["rank"] = r
        if give_log_pdet:
            kw["log_pdet"] = jnp.asarray((lp_pen + r * np.log(np.asarray(scale, dtype=np.float64))).astype(dt))
        return MultivariateNormalDegenerate(loc=locj, prec=prec, **kw)
    kw = {}
    if give_rank:
        kw["rank"] = r
    if give_log_pdet:
        kw["log_pdet"] = dt(lp_pen)
    if ctor == "smooth":
        return MultivariateNormalDegenerate.from_penalty_smooth(loc=locj, smooth=sc, pen=Kj, **kw)
    return MultivariateNormalDegenerate.from_penalty(loc=locj, var=1.0 / sc, pen=Kj, **kw)


def oracle_mvnd(c):
    K, r = build_penalty(c)
    d = c["d"]
    rng = np.random.default_rng([c["seed"], 1])
    sb, lb = tuple(c["scale_batch"]), tuple(c["loc_batch"])
    if int_typed(c):
        sb = ()
    scale = np.exp(rng.uniform(-1, 1, size=sb) + c["logscale"] * math.log(10) * 0.999) if sb else np.float64(10 ** c["logscale"])
    if int_typed(c):
        scale = np.float64(1.0)
    loc = rng.normal(size=lb + (d,))
    batch = np.broadcast_shapes(sb, lb)
    # evaluation points: in the range space or anywhere
    w, V = np.linalg.eigh(K)
    N, R = V[:, : d - r], V[:, d - r:]
    z = rng.normal(size=batch + (d,))
    x = z if c["offrange"] else (z @ R) @ R.T
    x = x + np.broadcast_to(loc, batch + (d,))
    shift = (rng.normal(size=batch + (d - r,)) @ N.T) * 3.0 if r < d else np.zeros(batch + (d,))
    give_rank = c["give_rank"] or not x64()
    # float32 + rank given but log_pdet derived from eigenvalues is fine (top-r eigenvalues)
    dist = construct(c, K, r, scale, loc, c["ctor"], give_rank, c["give_log_pdet"])
    require(tuple(dist.batch_shape) == batch and tuple(dist.event_shape) == (d,), "mvnd:batch-or-event-shape",
            f"batch {tuple(dist.batch_shape)} expected {batch}; {c}")
    dt = fdtype()
    lp = np.asarray(dist.log_prob(jnp.asarray(x.astype(dt))), dtype=np.float64)
    lp_shift = np.asarray(dist.log_prob(jnp.asarray((x + shift).astype(dt))), dtype=np.float64)
    require(lp.shape == batch, "mvnd:log_prob-shape", f"{lp.shape} expected {batch}; {c}")
    scale_b = np.broadcast_to(scale, batch)
    loc_b = np.broadcast_to(loc, batch + (d,))
    worst = 0.0
    for idx in np.ndindex(*batch) if batch else [()]:
        P = K * scale_b[idx]
        ref, _ = ref_logprob(P, r, loc_b[idx], x[idx])
        quad = abs(0.5 * (x[idx] - loc_b[idx]) @ P @ (x[idx] - loc_b[idx]))
        mag = abs(ref) + quad + r * (abs(math.log(scale_b[idx])) + 3)
        tol = (1e-9 if x64() else 3e-5) * (1 + mag) * (1 if x64() else max(1.0, float(np.linalg.norm(x[idx])) ** 0 ))
        if not x64():
            # float32 quadratic form: error grows with the operands, not with the (possibly cancelling) result
            ops = 0.5 * np.abs(x[idx] - loc_b[idx]) @ np.abs(P) @ np.abs(x[idx] - loc_b[idx])
            tol = 3e-5 * (1 + abs(ref) + ops + r * (abs(math.log(scale_b[idx])) + 3))
        err = abs(lp[idx] - ref)
        worst = max(worst, err / tol)
        require(err <= tol, "mvnd:log_prob-not-range-space-gaussian",
                lambda: f"idx={idx}: got {lp[idx]} expected {ref} (tol {tol:.2e}); ctor={c['ctor']} rank_given={give_rank} log_pdet_given={c['give_log_pdet']} d={d} r={r} scale={scale_b[idx]}; {c}")
        # null-space invariance
        xs = x[idx] + shift[idx]
        ops2 = 0.5 * np.abs(xs - loc_b[idx]) @ np.abs(P) @ np.abs(xs - loc_b[idx])
        tol2 = (1e-8 if x64() else 6e-5) * (1 + abs(ref) + ops2)
        require(abs(lp_shift[idx] - lp[idx]) <= tol2, "mvnd:not-invariant-to-null-space-shift",
                lambda: f"idx={idx}: {lp[idx]} vs shifted {lp_shift[idx]} (tol {tol2:.2e}); {c}")
    # all constructors agree pairwise at the same points
    for ctor in ("init", "penalty", "smooth"):
        for gr, gl in ((True, True), (give_rank, False)):
            if (ctor, gr, gl) == (c["ctor"], give_rank, c["give_log_pdet"]):
                continue
            other = construct(c, K, r, scale, loc, ctor, gr, gl)
            lpo = np.asarray(other.log_prob(jnp.asarray(x.astype(dt))), dtype=np.float64)
            tol3 = (1e-8 if x64() else 1e-4) * (1 + np.abs(lp) + r * (np.abs(np.log(scale_b)) + 3) + (0 if x64() else np.abs(lp) * 0 + 1e0 * np.max(np.abs(lp))))
            require(bool(np.all(np.abs(lpo - lp) <= tol3)), "mvnd:constructors-disagree",
                    lambda: f"{c['ctor']}(rank={give_rank},lpd={c['give_log_pdet']}) vs {ctor}(rank={gr},lpd={gl}): {lp.tolist()} vs {lpo.tolist()}; {c}")
    nt = (r < d and c["offrange"]) or (sb != lb and (sb or lb))
    return {"nt": bool(nt), "cls": ["x64" if x64() else "f32", c["ctor"], f"r{'<' if r < d else '='}d", "batch" if batch else "nobatch",
                                    "rank-free" if not give_rank else "rank-given", "int-penalty" if int_typed(c) else "float-penalty"], "extra": {"max_err_over_tol": worst}}


# ------------------------------------------------------------------------------ samples
def gen_samples():
    from hypothesis import strategies as st
    from vlib.gens import f32

    return st.fixed_dictionaries({"d": st.integers(1, 6), "pen": st.sampled_from(["diff", "random"]), "order": st.integers(0, 3),
                                  "r": st.integers(1, 6), "seed": st.integers(0, 10**6), "logscale": f32(-2, 2), "case_seed": st.integers(0, 2**30),
                                  "loc_batch": st.sampled_from([[], [2]]), "small_tol": st.booleans()})


def oracle_samples(c):
    K, r = build_penalty(c)
    d = c["d"]
    scale = 10 ** c["logscale"]
    if not x64():
        scale = 1.0 / max(np.linalg.eigvalsh(K)[-1], 1e-12)     # spectral norm 1 in float32 (domain note)
    kw = {}
    if c.get("small_tol") and x64():
        # weak precision (non-zero eigenvalues down to ~1e-10) with the documented `tol` argument lowered accordingly
        scale, kw = scale * 1e-7, {"tol": 1e-13}
    P = K * scale
    w, V = np.linalg.eigh(P)
    N, R, lam = V[:, : d - r], V[:, d - r:], w[d - r:]
    rng = np.random.default_rng([c["seed"], 2])
    lb = tuple(c["loc_batch"])
    loc = rng.normal(size=lb + (d,))
    dt = fdtype()
    dist = MultivariateNormalDegenerate(loc=jnp.asarray(loc.astype(dt)), prec=jnp.asarray(P.astype(dt)), rank=r, **kw)

    def stat(n, subseed):
        xs = np.asarray(dist.sample(n, seed=jax.random.PRNGKey((c["case_seed"] + 7919 * subseed) % 2**31)), dtype=np.float64)
        require(xs.shape == (n,) + lb + (d,), "mvnd:sample-shape", f"{xs.shape}; {c}")
        ctr = xs - loc
        if r < d:
            off = np.abs(ctr @ N)
            lim = (1e-9 if x64() else 2e-4) * (1 + np.abs(ctr).max())
            require(float(off.max()) <= lim, "mvnd:samples-leave-range-space", f"max null-space component {off.max():.3e} (limit {lim:.1e}); {c}")
        zs = (ctr @ R) * np.sqrt(lam)                                   # whitened: should be iid N(0,1)
        zs = zs.reshape(-1, r) if not lb else zs[:, 0, :]
        out = {}
        for j in range(r):
            out[f"ks{j}"] = stats.ks_z(zs[:, j], "norm")
            out[f"var{j}"] = stats.z_mean(zs[:, j] ** 2, 1.0, math.sqrt(2.0))
        for j in range(r):
            for k in range(j + 1, r):
                out[f"cov{j}{k}"] = stats.z_mean(zs[:, j] * zs[:, k], 0.0, 1.0)
        return out

    sig, rep = stats.decide(stat, 4096, 1)
    if sig:
        raise Violation("mvnd:sample-covariance-not-pseudo-inverse:" + sig.rstrip("0123456789"), f"{c} {rep}")
    return {"nt": r < d, "cls": ["x64" if x64() else "f32", f"r{'<' if r < d else '='}d", "small-tol" if kw else "default-tol"], "extra": {"max_abs_z": rep["max_abs_z"]}}


# ------------------------------------------------------------------------------ bijector
def gen_bij():
    from hypothesis import strategies as st

    xs = st.floats(-1e4, 1e4, allow_nan=False) if True else None
    return st.fixed_dictionaries({"x": st.one_of(st.floats(-3, 3), st.floats(-100, 100), xs),
                                  "y": st.one_of(st.floats(-0.999999, 0.999999), st.floats(-0.9, 0.9))})


def oracle_bij(c):
    b = AlgebraicSigmoid()
    dt = fdtype()
    xmax = 1e4 if x64() else 100.0
    x = float(np.clip(c["x"], -xmax, xmax))
    y = float(c["y"]) if x64() else float(np.clip(c["y"], -0.9999, 0.9999))
    eps = 1e-12 if x64() else 3e-7
    xj, yj = jnp.asarray(dt(x)), jnp.asarray(dt(y))
    x, y = float(xj), float(yj)
    fx = float(b.forward(xj))
    ref_f = x / math.sqrt(1 + x * x)
    require(abs(fx - ref_f) <= 4 * eps, "bijector:forward-value", f"x={x}: {fx} vs {ref_f}")
    # (a fresh array object: TFP caches forward results and would hand x back for the very same y object without calling the inverse)
    back = float(b.inverse(jnp.asarray(np.asarray(b.forward(xj)))))
    require(abs(back - x) <= 8 * eps * (1 + x * x) ** 1.5 + 4 * eps * abs(x), "bijector:inverse-does-not-undo-forward", f"x={x}: inverse(forward(x))={back}")
    iy = float(b.inverse(yj))
    ref_i = y / math.sqrt(1 - y * y)
    require(abs(iy - ref_i) <= 8 * eps * (1 + abs(ref_i)) / (1 - y * y), "bijector:inverse-value", f"y={y}: {iy} vs {ref_i}")
    fwd = float(b.forward(jnp.asarray(np.asarray(b.inverse(yj)))))
    require(abs(fwd - y) <= 16 * eps, "bijector:forward-does-not-undo-inverse", f"y={y}: forward(inverse(y))={fwd}")
    fl = float(b.forward_log_det_jacobian(xj, event_ndims=0))
    ref_fl = -1.5 * math.log1p(x * x)
    require(abs(fl - ref_fl) <= 16 * eps * (1 + abs(ref_fl)), "bijector:fldj-not-log-derivative", f"x={x}: {fl} vs {ref_fl}")
    g = float(jax.grad(lambda t: b.forward(t))(xj))
    # autodiff of x/sqrt(1+x^2) cancels catastrophically: relative error ~ eps * (1 + x^2); in float32 only |x| <= 3 is meaningful
    if g > 0 and (x64() or abs(x) <= 3):
        require(abs(fl - math.log(g)) <= 64 * eps * (1 + x * x), "bijector:fldj-differs-from-autodiff-of-forward", f"x={x}: fldj={fl} log(grad)={math.log(g)}")
    il = float(b.inverse_log_det_jacobian(yj, event_ndims=0))
    ref_il = -1.5 * math.log(1 - y * y)
    require(abs(il - ref_il) <= 32 * eps * (1 + abs(ref_il)) / (1 - y * y) ** (0 if x64() else 1) + 0, "bijector:ildj-not-log-derivative-of-inverse", f"y={y}: {il} vs {ref_il}")
    # ildj(y) = -fldj(inverse(y))
    fl_at = float(b.forward_log_det_jacobian(b.inverse(yj), event_ndims=0))
    require(abs(il + fl_at) <= 64 * eps * (1 + abs(ref_il)) / (1 - y * y) ** (0 if x64() else 1), "bijector:ildj-not-minus-fldj-at-inverse", f"y={y}: ildj={il} fldj(inv)={fl_at}")
    return {"nt": abs(x) > 1, "cls": ["x64" if x64() else "f32", "|x|>10" if abs(x) > 10 else "|x|<=10"]}


# ------------------------------------------------------------------------------ copula
def copula_ref(rho, u, v):
    a, b = sps.norm.ppf(u), sps.norm.ppf(v)
    return -0.5 * np.log1p(-rho * rho) - (rho * rho * (a * a + b * b) - 2 * rho * a * b) / (2 * (1 - rho * rho))


def gen_copula():
    from hypothesis import strategies as st

    rho = st.one_of(st.floats(-0.999, 0.999), st.floats(-0.9, 0.9), st.sampled_from([-0.999, -0.5, 0.0, 0.5, 0.999]))
    uv = st.one_of(st.floats(1e-6, 1 - 1e-6), st.floats(0.01, 0.99))
    return st.fixed_dictionaries({"rho": st.lists(rho, min_size=1, max_size=6), "batch": st.sampled_from(["scalar", "scalar", "vector", "matrix"]),
                                  "u": uv, "v": uv, "validate": st.booleans(), "seed": st.integers(0, 10**6)})


def oracle_copula(c):
    dt = fdtype()
    rhos = [float(dt(r)) for r in c["rho"]]
    if c["batch"] == "scalar":
        rho = np.asarray(rhos[0])
    elif c["batch"] == "vector":
        rho = np.asarray((rhos * 3)[:3])
    else:
        rho = np.asarray((rhos * 6)[:6]).reshape(2, 3)
    lim = 0.999 if x64() else 0.99
    rho = np.clip(rho, -lim, lim)
    edge = 1e-6 if x64() else 1e-3
    u, v = float(np.clip(c["u"], edge, 1 - edge)), float(np.clip(c["v"], edge, 1 - edge))
    det = f"rho={rho.tolist()} u={u} v={v} validate={c['validate']}"
    pt = jnp.asarray(np.array([u, v], dtype=dt))
    vals = {}
    for validate in (False, True):
        cop = GaussianCopula(jnp.asarray(rho.astype(dt)), validate_args=validate)
        require(tuple(cop.batch_shape) == rho.shape and tuple(cop.event_shape) == (2,), "copula:shapes", f"{cop.batch_shape} {cop.event_shape}; {det}")
        vals[validate] = np.asarray(cop.log_prob(pt), dtype=np.float64)
    ref = copula_ref(rho.astype(np.float64), float(dt(u)), float(dt(v)))
    a, b = sps.norm.ppf(u), sps.norm.ppf(v)
    tol = (1e-8 if x64() else 2e-4) * (1 + np.abs(ref) + (a * a + b * b) / (1 - rho * rho)) * (1 if x64() else 1 + 1 / min(u, v, 1 - u, 1 - v) * 1e-3)
    require(bool(np.all(np.abs(vals[False] - ref) <= tol)), "copula:log_prob-not-closed-form", lambda: f"got {vals[False].tolist()} expected {ref.tolist()} tol {tol.tolist()}; {det}")
    require(np.array_equal(vals[False], vals[True]), "copula:validation-changes-density", lambda: f"{vals[False].tolist()} vs {vals[True].tolist()}; {det}")
    # unit mass of c(u, .): Gauss-Hermite quadrature in z-space:  int c(u, Phi(b)) phi(b) db = 1
    r0 = float(rho.reshape(-1)[0])
    if abs(r0) <= 0.8:        # (for stronger dependence the conditional density is too narrow for this fixed quadrature rule)
        cop0 = GaussianCopula(jnp.asarray(dt(r0)), validate_args=c["validate"])
        nodes, weights = np.polynomial.hermite_e.hermegauss(120)
        keep = np.abs(nodes) < (7.5 if x64() else 3.0)
        vv = sps.norm.cdf(nodes[keep])
        pts = np.stack([np.full_like(vv, u), vv], axis=-1)
        dens = np.exp(np.asarray(cop0.log_prob(jnp.asarray(pts.astype(dt))), dtype=np.float64))
        mass = float(np.sum(dens * weights[keep]) / math.sqrt(2 * math.pi))
        if x64():
            require(abs(mass - 1.0) <= 1e-5, "copula:conditional-mass-not-one", f"mass {mass}; rho={r0} u={u}")
    return {"nt": bool(np.any(rho < 0) or rho.shape != ()), "cls": ["x64" if x64() else "f32", c["batch"], "neg" if np.any(rho < 0) else "nonneg"]}


def gen_copula_samples():
    from hypothesis import strategies as st

    return st.fixed_dictionaries({"rho": st.one_of(st.floats(-0.95, 0.95), st.sampled_from([-0.9, 0.9])), "validate": st.booleans(), "case_seed": st.integers(0, 2**30)})


def oracle_copula_samples(c):
    dt = fdtype()
    rho = float(dt(c["rho"]))
    cop = GaussianCopula(jnp.asarray(dt(rho)), validate_args=c["validate"])

    def stat(n, subseed):
        s = np.asarray(cop.sample(n, seed=jax.random.PRNGKey((c["case_seed"] + 104729 * subseed) % 2**31)), dtype=np.float64)
        require(s.shape == (n, 2) and bool(np.all((s >= 0) & (s <= 1))), "copula:sample-shape-or-range", f"{s.shape}; {c}")
        a, b = sps.norm.ppf(np.clip(s[:, 0], 1e-12, 1 - 1e-12)), sps.norm.ppf(np.clip(s[:, 1], 1e-12, 1 - 1e-12))
        return {"ks_u": stats.ks_uniform_z(s[:, 0]), "ks_v": stats.ks_uniform_z(s[:, 1]),
                "corr": stats.z_mean(a * b, rho, math.sqrt(1 + rho * rho))}

    sig, rep = stats.decide(stat, 4096, 1)
    if sig:
        raise Violation("copula:samples:" + sig, f"{c} {rep}")
    return {"nt": rho < 0, "cls": ["x64" if x64() else "f32", "neg" if rho < 0 else "nonneg"], "extra": {"max_abs_z": rep["max_abs_z"]}}


SUBS = [
    Sub("mvnd_logprob", oracle_mvnd, gen=gen_mvnd, n={"quick": 400, "thorough": 16000}, what="degenerate MVN density, null-space invariance, constructor agreement"),
    Sub("mvnd_samples", oracle_samples, gen=gen_samples, n={"quick": 32, "thorough": 800}, shrink={"quick": False, "thorough": False},
        what="samples in the range space with pseudo-inverse covariance (statistical)"),
    Sub("bijector", oracle_bij, gen=gen_bij, n={"quick": 800, "thorough": 40000}, what="AlgebraicSigmoid round trips and Jacobians"),
    Sub("copula", oracle_copula, gen=gen_copula, n={"quick": 240, "thorough": 8000}, what="Gaussian copula closed form, validation on/off, unit mass"),
    Sub("copula_samples", oracle_copula_samples, gen=gen_copula_samples, n={"quick": 24, "thorough": 400}, shrink={"quick": False, "thorough": False},
        what="uniform marginals and normal-score correlation of copula samples (statistical)"),
]
