"""C06 — Proposal corrections of RW, IWLS and MH kernels satisfy detailed balance.

For generated targets with analytic gradient and Hessian (Gaussian, Poisson and logistic regression with normal prior,
quartic-perturbed Gaussian), blocks split into 1-3 keys (scalars / vectors, listed in generated orders), step sizes over two
decades, current points from bulk and tails:
  every transition (256 PRNG keys per case) is run twice through the real kernel - once on the target, once on the target plus
  BIG * 1[position != anchor] (zero gradient / Hessian, so the *same* proposal is generated and always accepted: the realised proposal
  x' of rejected moves becomes observable) - and the reported acceptance probability is compared with
        a* = min(1, pi(x') q(x|x') / (pi(x) q(x'|x)))       (float64, analytic gradient / Hessian)
  with q = N(x, s^2 I) (RW), N(x + s^2/2 F(x)^-1 grad log pi(x), s^2 F(x)^-1) (IWLS; F = -Hessian or the user's information), and the
  declared correction of a generated asymmetric drift proposal (MH).  The proposals themselves are tested to be the q assumed
  (whitened residuals ~ N(0, I), statistical with confirmation).
"""
from __future__ import annotations

import math

import numpy as np

from vlib import stats
from vlib import targets as tg
from vlib.lz import gs, jax, jnp
from vlib.runner import Sub, Violation, require

from liesel.goose.epoch import EpochConfig, EpochType

PROPERTY = "C06"
RULE = ("cases = (target family, dimension 1-5 or 12 / 20 / 28, key split and listing order, kernel RW | IWLS | IWLS with user information | MH with drift "
        "proposal, step size 0.01-2, current point bulk / tail, seed) x 256 PRNG keys; non-trivial = some transition with 0.01 < a* < 0.99 and "
        "|grad log pi(x)| > 0.1; zero_density_current: RW / MH started outside the support, non-trivial = P(proposal in support) in (0.02, 0.98); "
        "distinct = SHA-1 of the case")
ASSUMPTIONS = [
    "oracle in float64 with analytic gradients / Hessians; reported float32 acceptance compared on the log scale with tolerance "
    "5e-3 + 1e-3 * |log-density terms| + float32 conditioning of the Cholesky solve (skipped when both are < 1e-30)",
    "the forced-accept anchor term has zero gradient and Hessian, so it changes no proposal; runs that the real target accepted must return "
    "bit-identical positions (checked)",
    "proposal-distribution sub-check is statistical (|z| > 6, then three confirmations at 4N with |z| > 4)",
]
SHARDS = {"quick": 16, "thorough": 16}
TECHNIQUE = ("Hypothesis-generated targets / block layouts / step sizes; proposal capture by a forced-accept twin run; float64 closed-form "
             "Metropolis-Hastings ratio as oracle; KS / moment tests of whitened proposal residuals")
LEVEL_TEXT = ("Generated-input differential testing of the acceptance probability of every transition (accepted and rejected) against the "
              "detailed-balance ratio computed in float64 from analytic derivatives, plus a statistical test that the realised proposals "
              "follow the assumed Gaussian. Exploration with stated tolerances, not proof.")
LEVEL_NOTE = "Trusts the analytic derivatives in vlib/targets.py (cross-checked against jax autodiff at start-up) and numpy linear algebra."

NKEYS = 256
DELTA = 0.35


def gen():
    from hypothesis import strategies as st

    @st.composite
    def g(draw):
        D = draw(st.one_of(st.integers(1, 5), st.integers(1, 5), st.integers(1, 5), st.sampled_from([12, 20, 28])))   # also regression-sized blocks
        nk = draw(st.integers(1, min(3, D)))
        cuts = sorted(draw(st.lists(st.integers(1, D - 1), min_size=nk - 1, max_size=nk - 1, unique=True))) if nk > 1 else []
        sizes = [b - a for a, b in zip([0] + cuts, cuts + [D])]
        pool = ["s_b", "v_a", "s_d", "v_c", "v_e"]
        names = []
        for sz in sizes:
            cand = [n for n in pool if n not in names and (n.startswith("v") or sz == 1)]
            names.append(draw(st.sampled_from(cand)))
        order = draw(st.permutations(list(range(len(names)))))
        return {"kind": draw(st.sampled_from(["gauss", "gauss_wide", "poisson", "logistic", "quartic"])), "D": D, "sizes": sizes, "names": names, "order": list(order),
                "kernel": draw(st.sampled_from(["rw", "iwls", "iwls", "iwls_user", "mh"])), "step": draw(st.sampled_from([0.01, 0.05, 0.2, 0.5, 1.0, 2.0] if D <= 5 else [0.01, 0.01, 0.05, 0.2])),    # (large blocks need small steps to move at all)
                "point": draw(st.sampled_from(["bulk", "bulk", "tail"])),
                # the step size in force is the one in the kernel state (as after adaptation); the constructor's initial value may differ from it
                "init_step": draw(st.sampled_from([None, 0.37, 1.3])), "seed": draw(st.integers(0, 10**6)), "key_seed": draw(st.integers(0, 2**30))}

    return g()


_checked = set()


def selfcheck_derivatives(t: tg.FlatTarget):
    """the analytic gradient / Hessian agree with jax autodiff of the jnp log-density (harness sanity, once per family)"""
    if t.kind in _checked:
        return
    _checked.add(t.kind)
    x = np.linspace(-0.4, 0.6, t.D)
    with jax.experimental.enable_x64() if hasattr(jax.experimental, "enable_x64") else _null():
        xj = jnp.asarray(x, dtype=jnp.float64)
        g = np.asarray(jax.grad(t.logp_jnp)(xj))
        H = np.asarray(jax.hessian(t.logp_jnp)(xj))
    if not (np.allclose(g, t.grad(x), rtol=1e-6, atol=1e-8) and np.allclose(-H, t.neg_hess(x), rtol=1e-6, atol=1e-8)):
        raise RuntimeError(f"harness: analytic derivatives of {t.kind} disagree with autodiff")


class _null:
    def __enter__(self):
        return self

    def __exit__(self, *a):
        return False


def build(c):
    t = tg.FlatTarget(c["kind"], c["D"], c["seed"])
    listing = [c["names"][i] for i in c["order"]]
    layout = tg.split_layout(c["D"], c["sizes"], c["names"])
    iface = tg.make_interface(t, layout)
    k = c["kernel"]
    if k == "rw":
        ker = gs.RWKernel(listing, initial_step_size=c.get("init_step") or c["step"])
    elif k == "iwls":
        ker = gs.IWLSKernel(listing, initial_step_size=c.get("init_step") or c["step"])
    elif k == "iwls_user":
        def chol_info(state):
            return jnp.linalg.cholesky(t.user_info_jnp(tg.flat_of(state, layout)))

        ker = gs.IWLSKernel(listing, chol_info_fn=chol_info, initial_step_size=c.get("init_step") or c["step"])
    else:
        def proposal(key, state, step):
            x = tg.flat_of(state, layout)
            z = jax.random.normal(key, x.shape)
            new = x + step * (DELTA + z)
            fwd = -0.5 * jnp.sum(((new - x) / step - DELTA) ** 2)
            bwd = -0.5 * jnp.sum(((x - new) / step - DELTA) ** 2)
            pos = {kk: jnp.reshape(new[sl], shp) for kk, (sl, shp) in layout.items()}
            return gs.MHProposal(pos, bwd - fwd)

        ker = gs.MHKernel(listing, proposal, initial_step_size=c.get("init_step") or c["step"])
    ker.set_model(iface)
    return t, layout, iface, ker


def run_keys(ker, state, keys, step):
    epoch = EpochConfig(EpochType.BURNIN, 10, 1, None).to_state(1, 1)

    def one(key, force):
        st = dict(state, force=force)
        ks = ker.init_state(key, st)
        ks.step_size = jnp.float32(step)
        out = ker.transition(key, ks, st, epoch)
        return out.info.acceptance_prob, out.info.position_moved, out.info.error_code, {k: v for k, v in out.model_state.items() if k not in ("anchor", "force")}

    f = jax.jit(jax.vmap(one, in_axes=(0, None)))
    real = f(keys, jnp.float32(0.0))
    forced = f(keys, jnp.float32(1.0))
    return real, forced


def oracle(c):
    det = lambda: f"{c}"  # noqa: E731
    t, layout, iface, ker = build(c)
    selfcheck_derivatives(t)
    rng = np.random.default_rng([c["seed"], 66])
    # current point
    mode = np.linalg.solve(t.P, t.P @ t.m) if c["kind"] in ("gauss", "gauss_wide") else np.zeros(c["D"])
    Hm = t.neg_hess(mode)
    sd = 1.0 / np.sqrt(np.diag(Hm))
    x = mode + sd * rng.normal(size=c["D"]) * (1.0 if c["point"] == "bulk" else 2.5)
    x = np.asarray(x, dtype=np.float32).astype(np.float64)
    state = tg.state_of(x, layout)
    keys = jax.random.split(jax.random.PRNGKey(c["key_seed"]), NKEYS)
    s = float(np.float32(c["step"]))
    (acc, moved, code, new_real), (acc_f, moved_f, code_f, new_forced) = run_keys(ker, state, keys, s)
    acc, moved, code = np.asarray(acc, dtype=np.float64), np.asarray(moved), np.asarray(code)
    XP = np.asarray(tg.flat_of({k: np.asarray(v) for k, v in new_forced.items()} | {}, layout, xp=_NP(NKEYS)), dtype=np.float64)   # (NKEYS, D) proposals
    XR = np.asarray(tg.flat_of({k: np.asarray(v) for k, v in new_real.items()}, layout, xp=_NP(NKEYS)), dtype=np.float64)
    # the forced twin accepts every proposal whose target density is not zero / undefined (BIG = 1e6 cannot lift -inf or NaN);
    # for the remaining keys the proposal is not observable: there the real run must report acceptance probability 0 and stay put
    captured = np.asarray(moved_f) != 0
    require(bool(np.all((acc[~captured] == 0.0) & (moved[~captured] == 0))), "zero-density-proposal-not-rejected", det)
    if c["kind"] != "poisson":
        # Gaussian, quartic and logistic targets have a finite positive density, gradient and positive definite information at every finite
        # point: no proposal can be unobservable there and no ratio undefined (only the Poisson target can overflow to zero density)
        require(bool(np.all(captured) and np.all(code == 0)), "undefined-ratio-on-an-everywhere-positive-target:" + c["kernel"],
                lambda: f"{int((~captured).sum())} of {NKEYS} proposals rejected by the forced-accept twin, error codes {np.unique(code).tolist()}; {det()}")
    if int(captured.sum()) < NKEYS // 4:
        return {"nt": False, "cls": ["mostly-zero-density-proposals"], "weight": NKEYS}     # e.g. huge steps on a Poisson target: nothing to compare
    # self-check of the capture: accepted real transitions return the captured proposal bit for bit, rejected ones the current point
    acc_mask = moved != 0
    require(np.array_equal(XR[acc_mask], XP[acc_mask]), "proposal-differs-between-twin-runs-or-accepted-state-is-not-the-proposal", det)
    require(bool(np.all(XR[~acc_mask] == x[None, :].astype(np.float32))), "rejected-transition-moved-the-position", det)
    require(bool(np.all(code[captured] == 0)), "unexpected-error-code", lambda: f"codes {np.unique(code).tolist()}; {det()}")
    # --- oracle acceptance probability
    lp_x = t.logp(x)
    g_x = t.grad(x)
    kind = c["kernel"]
    F_x = t.user_info(x) if kind == "iwls_user" else t.neg_hess(x)
    worst, n_nt = 0.0, 0
    for i in range(NKEYS):
        if not captured[i]:
            continue
        xp = XP[i]
        lp_p = t.logp(xp)
        terms = abs(lp_x) + abs(lp_p)
        if kind == "rw":
            corr = 0.0
        elif kind == "mh":
            fwd = -0.5 * np.sum(((xp - x) / s - DELTA) ** 2)
            bwd = -0.5 * np.sum(((x - xp) / s - DELTA) ** 2)
            corr = bwd - fwd
            terms += abs(fwd) + abs(bwd)
        else:
            F_p = t.user_info(xp) if kind == "iwls_user" else t.neg_hess(xp)
            mu_x = x + 0.5 * s * s * np.linalg.solve(F_x, g_x)
            mu_p = xp + 0.5 * s * s * np.linalg.solve(F_p, t.grad(xp))
            fwd = _mvn_logpdf(xp, mu_x, F_x / (s * s))
            bwd = _mvn_logpdf(x, mu_p, F_p / (s * s))
            corr = bwd - fwd
            terms += abs(fwd) + abs(bwd) + 0.5 * np.sum(np.abs(xp - mu_x)) * np.linalg.norm(F_x) / (s * s) * 1e-2
        la = lp_p - lp_x + corr
        a_star = 1.0 if la >= 0 else math.exp(la)
        a_rep = float(acc[i])
        if a_star < 1e-30 and a_rep < 1e-30:
            continue
        tol = 5e-3 + 1e-3 * terms
        la_rep = math.log(max(a_rep, 1e-300))
        err = abs(la_rep - min(la, 0.0))
        worst = max(worst, err / tol)
        if err > tol:
            # classify the failure for a stable signature
            alt = {"sign-of-correction": lp_p - lp_x - corr, "correction-ignored": lp_p - lp_x, "ratio-inverted": -(lp_p - lp_x) + corr}
            sig = next((k for k, v in alt.items() if abs(la_rep - min(v, 0.0)) <= tol and abs(corr) > 10 * tol), "value")
            require(False, f"acceptance-probability-not-detailed-balance:{kind}:{sig}",
                    lambda: f"key #{i}: reported a={a_rep:.6g} oracle a*={a_star:.6g} (log ratio {la:.5f}: dlogpi={lp_p - lp_x:.5f} corr={corr:.5f}); x={x.tolist()} x'={xp.tolist()}; {det()}")
        if 0.01 < a_star < 0.99 and np.linalg.norm(g_x) > 0.1:
            n_nt += 1
    # --- the proposal is the q the correction assumes (whitened residuals)
    def whiten(XPm):
        if kind == "rw":
            return (XPm - x[None, :]) / s
        if kind == "mh":
            return (XPm - x[None, :]) / s - DELTA
        L = np.linalg.cholesky(F_x)
        mu = x + 0.5 * s * s * np.linalg.solve(F_x, g_x)
        return ((XPm - mu[None, :]) @ L) / s

    def stat(n, subseed):
        ks = jax.random.split(jax.random.PRNGKey((c["key_seed"] + 104729 * subseed) % 2**31), n)
        _, (_, mf, _, nf) = run_keys_forced_only(ker, state, ks, s)
        XPn = np.asarray(tg.flat_of({k: np.asarray(v) for k, v in nf.items()}, layout, xp=_NP(n)), dtype=np.float64)
        if not bool(np.all(np.asarray(mf) != 0)):
            return {}          # some proposals hit zero density and are unobservable: a truncated sample would bias the test, so it is skipped
        Z = whiten(XPn)
        out = {"ks_pooled": stats.ks_z(Z.reshape(-1), "norm"), "mean": stats.z_mean(Z.reshape(-1), 0.0, 1.0), "var": stats.z_mean(Z.reshape(-1) ** 2, 1.0, math.sqrt(2.0))}
        if Z.shape[1] > 1:
            out["cross"] = stats.z_mean((Z[:, 0] * Z[:, 1]), 0.0, 1.0)
        return out

    sig, rep = stats.decide(stat, 4096, 1)
    if sig:
        raise Violation(f"proposal-not-the-assumed-gaussian:{kind}", f"{sig}: {rep}; {c}")
    return {"nt": n_nt > 0, "cls": [c["kind"], kind, f"D{c['D']}", f"keys{len(c['names'])}", "unsorted" if [c['names'][i] for i in c['order']] != sorted(c['names']) else "sorted",
                                    c["point"], f"step{c['step']}"], "weight": NKEYS, "extra": {"max_err_over_tol": worst, "max_abs_z": rep["max_abs_z"]}}


# ------------------------------------------------------------------------------ current point of zero density ("for all current points")
_Z = {}


def _zero_setup(kind):
    if kind in _Z:
        return _Z[kind]

    def log_prob(s):
        x = s["x"]
        return jnp.where(x > 0, 2.0 * jnp.log(jnp.where(x > 0, x, 1.0)) - x, -jnp.inf) - 0.5 * jnp.sum(s["b"] ** 2)

    model = gs.DictInterface(log_prob)
    if kind == "rw":
        ker = gs.RWKernel(["x"], initial_step_size=1.0)
    else:
        def proposal(key, state, step):
            z = jax.random.normal(key)
            x = state["x"]
            new = x + step * (DELTA + z)
            return gs.MHProposal({"x": new}, -0.5 * ((x - new) / step - DELTA) ** 2 + 0.5 * ((new - x) / step - DELTA) ** 2)

        ker = gs.MHKernel(["x"], proposal, initial_step_size=1.0)
    ker.set_model(model)
    epoch = EpochConfig(EpochType.BURNIN, 10, 1, None).to_state(1, 1)

    def one(key, x, step):
        state = {"x": x, "b": jnp.array([0.5, -0.5], dtype=jnp.float32)}
        ks = ker.init_state(key, state)
        ks.step_size = step
        out = ker.transition(key, ks, state, epoch)
        return out.info.acceptance_prob, out.info.position_moved, out.info.error_code, out.model_state["x"]

    _Z[kind] = jax.jit(jax.vmap(one, in_axes=(0, None, None)))
    return _Z[kind]


def gen_zero():
    from hypothesis import strategies as st
    from vlib.gens import f32

    return st.fixed_dictionaries({"kernel": st.sampled_from(["rw", "mh"]), "x": f32(-2.0, -0.05), "step": st.sampled_from([0.5, 1.0, 2.5]),
                                  "key_seed": st.integers(0, 2**30)})


def oracle_zero(c):
    """pi(x) = 0 at the current point: a proposal inside the support has ratio +inf (a* = 1, always accepted); one outside has an undefined ratio
    (0/0: reported as a rejection with a = 0)"""
    from scipy import stats as sps

    f = _zero_setup(c["kernel"])
    x0, s = float(np.float32(c["x"])), float(c["step"])
    p_in = float(sps.norm.cdf(x0 / s + (DELTA if c["kernel"] == "mh" else 0.0)))
    seen = {}

    def stat(n, subseed):
        keys = jax.random.split(jax.random.PRNGKey((c["key_seed"] + 104729 * subseed) % 2**31), n)
        acc, moved, code, xo = (np.asarray(a) for a in f(keys, jnp.float32(x0), jnp.float32(s)))
        mv = moved != 0
        require(bool(np.all((acc[mv] == 1.0) & (xo[mv] > 0))), "zero-density-current-point:accepted-move-without-a=1-or-outside-support", lambda: f"{c}")
        require(bool(np.all((acc[~mv] == 0.0) & (xo[~mv] == np.float32(x0)))), "zero-density-current-point:rejection-with-a>0",
                lambda: f"acc of rejected transitions {np.unique(acc[~mv])[:5].tolist()}; {c}")
        seen["k"], seen["n"] = int(mv.sum()), n
        return {"moves-as-often-as-proposals-fall-into-the-support": stats.z_binom(int(mv.sum()), n, p_in)}

    sig, rep = stats.decide(stat, 2048, 1)
    if sig:
        raise Violation(f"zero-density-current-point:acceptance-probability-not-one-for-proposals-in-the-support:{c['kernel']}",
                        f"moved {seen.get('k')} of {seen.get('n')}, P(proposal in support) = {p_in:.4f}; {rep}; {c}")
    return {"nt": bool(0.02 < p_in < 0.98), "cls": [c["kernel"], "zero-density-start"], "weight": 2048, "extra": {"max_abs_z": rep["max_abs_z"]}}


def run_keys_forced_only(ker, state, keys, step):
    real, forced = run_keys(ker, state, keys, step)
    return real, forced


class _NP:
    """numpy shim for flat_of on batched leaves (leading key axis)"""

    def __init__(self, n):
        self.n = n

    def concatenate(self, xs):
        return np.concatenate(xs, axis=1)

    def reshape(self, a, shp):
        return np.asarray(a).reshape(self.n, -1)


def _mvn_logpdf(x, mean, prec):
    d = x - mean
    sign, logdet = np.linalg.slogdet(prec)
    return 0.5 * logdet - 0.5 * d @ prec @ d - 0.5 * len(x) * math.log(2 * math.pi)


SUBS = [
    Sub("detailed_balance", oracle, gen=gen, n={"quick": 64, "thorough": 1500}, shrink_calls=24, min_per_shard=3,
        what="reported acceptance probability vs float64 MH ratio for every transition (256 keys per case); proposal law"),
    Sub("zero_density_current", oracle_zero, gen=gen_zero, n={"quick": 16, "thorough": 300}, shrink={"quick": False, "thorough": False}, min_per_shard=2,
        what="RW / MH from a current point of zero density: proposals inside the support are accepted with a = 1, others rejected with a = 0"),
]
