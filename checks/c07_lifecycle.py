"""C07 — The engine drives every kernel through the documented life-cycle.

One sub-oracle family over generated schedules (vlib.enginelab): self-reporting ProbeKernels are run through the real
Engine; every stored transition info carries the kernel's life-cycle counters, so the complete per-chain, per-kernel call
trace is reconstructed and compared with a pure-Python reference of the documented life-cycle.  Differential: the same
schedule configured up-front + sample_all_epochs vs. appended / sampled epoch by epoch must give identical stored traces.
"""
from __future__ import annotations

import numpy as np

from vlib import enginelab as el
from vlib.lz import jax
from vlib.runner import Sub, require

PROPERTY = "C07"
RULE = ("cases = engine specs (valid epoch schedule by construction, chains 1-3, chunk = any divisor of the gcd of durations, 1-3 probe "
        "kernels with mixed needs_history, interleaving script of append_epoch / sample_next_epoch / sample_all_epochs) drawn by "
        "Hypothesis; non-trivial = at least one adaptation epoch AND (two or more posterior epochs OR an epoch appended after sampling "
        "started) AND chunk < the longest duration; distinct = SHA-1 of the spec")
ASSUMPTIONS = [
    "life-cycle calls are observed through counters the probe kernel keeps in its kernel state (copied into every transition info) and "
    "a Python-side log of the (vmapped, un-jitted) life-cycle calls for the events after the last transition",
    "schedules are valid by construction; an empty tracked-key set is outside the input domain",
]
SHARDS = {"quick": 16, "thorough": 16}
TECHNIQUE = ("Hypothesis-generated engine schedules and call interleavings; self-reporting probe kernels; lock-step comparison with a "
             "pure-Python reference model of the life-cycle; differential run (up-front vs appended epochs)")
LEVEL_TEXT = ("Model-based generated-history testing: for each generated schedule / chunk / chain count / kernel set the real Engine is "
              "run and the full per-chain call trace (start/transition/end/tune/end_warmup order, times, adaptive branch, history "
              "argument digest) reconstructed from the stored transition infos is compared field by field with a reference model; the "
              "same schedule driven through append_epoch/sample_next_epoch interleavings must store identical traces. Exploration over "
              "generated schedules up to the stated sizes, not a proof.")
LEVEL_NOTE = "Trusts the reference model in vlib/enginelab.py (about 100 lines written from the property statement) and JAX tracing of the probe kernel."

COUNT_FIELDS = ["n_warm", "n_start", "n_end", "n_tune", "n_slow", "n_trans", "n_adapt"]
ORDER_FIELDS = ["last_warm_seq", "last_start_seq", "last_end_seq", "last_tune_seq", "seq"]
ARG_FIELDS = ["start_nth", "start_time", "start_tie", "start_type", "end_nth", "end_time", "end_tie", "tune_nth", "tune_time", "tune_tie", "warm_th_len",
              "start_dur", "start_thin", "end_dur", "end_thin", "end_type", "tune_dur", "tune_thin", "tune_type"]
HIST_FIELDS = ["tune_hist_len", "tune_hist_digest"]
STEP_FIELDS = ["time", "time_in_epoch", "etype", "nth", "duration", "thinning", "adaptive", "pre", "post"]


def gen():
    return el.schedule_strategy(max_dur=12, max_epochs=5, chains=(1, 3))


def compare_trace(spec, eng, ref, tag=""):
    res = eng.get_results()
    tis = res.transition_infos.combine_all().unwrap()
    total = sum(e[1] for e in spec["epochs"][1:])
    for ki in range(len(spec["kernels"])):
        ident = f"kernel_{ki:02d}"
        require(ident in tis, tag + "infos-missing-kernel", ident)
        ti = tis[ident]
        ks = el.unpack_ks(ti.ks)
        got_n = np.asarray(ti.time).shape
        require(got_n == (spec["chains"], total), tag + "transition-count", f"infos shape {got_n} expected {(spec['chains'], total)}")
        for c in range(spec["chains"]):
            exp = ref[c]["infos"][ki]
            for group, fields, src in (("step", STEP_FIELDS, None), ("count", COUNT_FIELDS, ks), ("order", ORDER_FIELDS, ks),
                                       ("args", ARG_FIELDS, ks), ("hist", HIST_FIELDS, ks)):
                for f in fields:
                    g = np.asarray(getattr(ti, f))[c] if src is None else src[f][c]
                    e = np.array([x[f] if src is None else x["ks"][f] for x in exp])
                    if not np.array_equal(g.astype(np.int64), e.astype(np.int64)):
                        i = int(np.argmax(g.astype(np.int64) != e.astype(np.int64)))
                        require(False, f"{tag}trace:{f}", f"chain {c} {ident} transition #{i} (epoch {exp[i]['nth']}, time {exp[i]['time']}): "
                                                            f"got {int(g[i])} expected {int(e[i])}; epochs={spec['epochs']} chunk={spec['chunk']}")


def compare_log(spec, log, tag=""):
    exp = el.expected_log(spec)
    got = [(x[0], x[1]) + ((x[2],) if len(x) > 2 else ()) for x in log]
    if any(len(x) > 2 and x[2] == "traced" for x in log):
        return  # life-cycle calls were traced (jitted by a refactoring): the per-chain counters above remain the oracle
    if got != exp:
        # report the first difference with a stable signature
        i = next((j for j, (a, b) in enumerate(zip(got, exp)) if a != b), min(len(got), len(exp)))
        a = got[i] if i < len(got) else None
        b = exp[i] if i < len(exp) else None
        what = (a or b)[0]
        require(False, f"{tag}log:{'extra' if b is None or (a and a[0] != b[0] and len(got) > len(exp)) else 'order'}-{what}",
                f"call #{i}: got {a} expected {b}; epochs={spec['epochs']}")
    # epoch arguments of start / end / tune
    t0 = {}
    t = 1
    for ei, (typ, d, k) in enumerate(spec["epochs"]):
        if ei:
            t0[ei] = (t, d, typ)
            t += d
    for x in log:
        if x[0] in ("start", "end", "tune") and len(x) == 7:
            _, ident, nth, typ, time, tie, dur = x
            T, d, ty = t0[nth]
            ok = typ == ty and dur == d and ((time, tie) == (T, 0) if x[0] == "start" else (time, tie) == (T + d, d))
            require(ok, f"{tag}log:{x[0]}-epoch-argument", f"{x} expected start time {T} duration {d}")


def same_results(ra, rb, sig, detail):
    from vlib.lz import tree_equal_bits

    pa, pb = ra.positions.combine_all().unwrap(), rb.positions.combine_all().unwrap()
    require(tree_equal_bits(pa, pb), sig + ":positions", detail)
    ia, ib = ra.transition_infos.combine_all().unwrap(), rb.transition_infos.combine_all().unwrap()
    require(tree_equal_bits(ia, ib), sig + ":transition-infos", detail)
    if ra.kernel_states.is_some() and rb.kernel_states.is_some():
        require(tree_equal_bits(ra.kernel_states.unwrap().combine_all().unwrap(), rb.kernel_states.unwrap().combine_all().unwrap()),
                sig + ":kernel-states", detail)


def oracle(spec):
    ref = el.reference(spec)
    eng_a, log_a = el.run_all(spec)
    compare_trace(spec, eng_a, ref)
    compare_log(spec, log_a)
    up, actions = el.script_for(spec)
    trivial_script = up == len(spec["epochs"]) and actions == ["all"]
    if not trivial_script:
        eng_b, log_b, actions = el.run_script(spec)
        require(eng_b.is_sampling_done(), "script:not-done", f"{actions}")
        same_results(eng_a.get_results(), eng_b.get_results(), "incremental-differs", f"script={actions} upfront={up} epochs={spec['epochs']}")
        compare_log(spec, log_b, "script-")
    types = [e[0] for e in spec["epochs"]]
    appended_late = any(isinstance(a, list) for a in actions[1:]) and any(a in ("next", "all") for a in actions[:-1])
    nt = any(t in (1, 2) for t in types) and (types.count(4) >= 2 or appended_late) and spec["chunk"] < max(e[1] for e in spec["epochs"])
    cls = [f"post{types.count(4)}", "adapt" if any(t in (1, 2) for t in types) else "noadapt", "burnin" if 3 in types else "noburnin",
           f"chains{spec['chains']}", f"kernels{len(spec['kernels'])}", "hist" if any(k["hist"] for k in spec["kernels"]) else "nohist",
           "script" if not trivial_script else "noscript", "chunk<dur" if spec["chunk"] < max(e[1] for e in spec["epochs"]) else "chunk=dur"]
    return {"nt": bool(nt), "cls": cls}


SUBS = [
    Sub("lifecycle", oracle, gen=gen, n={"quick": 96, "thorough": 2400}, shrink={"quick": True, "thorough": True},
        what="per-chain call trace vs reference; up-front vs incremental differential"),
]
