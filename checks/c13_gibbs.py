"""C13 — Gibbs kernels draw from the exact full conditional.

Sub-oracles
  tau2      inverse-gamma Gibbs kernel for smoothing variances (tau2_gibbs_kernel): penalty matrices of dimension 2-8 and every rank
            (difference penalties of order 1-3, random Q diag(lambda) Q^T, scaled by 1e-3 .. 1e3), hyperparameters a, b in [0.01, 10],
            arbitrary coefficients (incl. beta in the null space => beta'K beta = 0), models built through DistRegBuilder.add_np_smooth
            and by hand.  The *model itself* defines the target: its log-probability as a function of tau2 alone on a log grid is fitted
            on the basis {log tau2, 1/tau2, 1}; the fit must be exact (it is an inverse-gamma kernel) and gives (a*, b*); the kernel's
            draws (8192 keys) must pass KS against IG(a*, b*), and (a*, b*) must equal the analytic a + rank/2, b + beta'K beta/2.
  discrete  finite_discrete_gibbs_kernel: 2-6 outcomes, generated prior probabilities (incl. near-zero and exactly zero), Bernoulli and
            FiniteDiscrete priors, explicit or inferred outcomes, downstream likelihood depending on the discrete variable directly,
            through an anonymous calculation or through an intermediate named variable.  Exact conditional pmf = softmax of the model's
            own log-probability per outcome (float64); draw frequencies over 16384 keys are z-tested, zero-probability outcomes are
            never drawn.
"""
from __future__ import annotations

import math

import numpy as np
from scipy import stats as sps

from vlib import stats
from vlib.lz import gs, jax, jnp, lsl, tfb, tfd
from vlib.runner import Sub, Violation, require

from liesel.distributions import MultivariateNormalDegenerate
from liesel.model import DistRegBuilder
from liesel.model.distreg import tau2_gibbs_kernel
from liesel.model.goose import finite_discrete_gibbs_kernel

PROPERTY = "C13"
RULE = ("tau2: (penalty kind / dimension / rank / scale, a, b, coefficient vector in or out of the null space, builder path, data) ; discrete: "
        "(outcomes, prior probabilities, prior family, dependence path of the likelihood, data). Non-trivial = rank-deficient K with beta not in "
        "null(K) (tau2); non-uniform conditional pmf with a likelihood that depends on the variable (discrete). Distinct = SHA-1 of the case")
ASSUMPTIONS = [
    "statistical decisions: |z| > 6 then three confirmations at 4N with |z| > 4 (DESIGN 2.6)",
    "the target is read off the model's own log-probability (LieselInterface), so a kernel that disagrees with the model is caught whichever is 'right'",
    "float32 model log-probabilities: the basis fit is accepted within 2e-3 relative residual; analytic (a*, b*) within 1% + 1e-2",
]
SHARDS = {"quick": 16, "thorough": 16}
TECHNIQUE = ("Hypothesis-generated penalties / hyperparameters / outcome sets; target conditional recovered from the model's own log-density "
             "(least-squares identification of the inverse-gamma kernel, float64 softmax for the discrete case); KS / binomial z-tests of "
             "vmapped kernel draws with independent confirmation")
LEVEL_TEXT = ("Generated-input statistical testing against an exact reference distribution derived from the model's joint density itself: "
              "thousands of kernel draws per case are compared with the full conditional by KS / z-tests under an explicit false-alarm budget "
              "with confirmation runs, and the identified conditional parameters are cross-checked with the analytic conjugate update. "
              "Exploration with a stated detection floor, not proof.")
LEVEL_NOTE = "Trusts scipy.stats (invgamma cdf, binomial) and the model's log-probability as the definition of the target."


def diff_penalty(d, order):
    D = np.eye(d)
    for _ in range(order):
        D = np.diff(D, axis=0)
    return D.T @ D


def gen_tau2():
    from hypothesis import strategies as st
    from vlib.gens import f32

    return st.fixed_dictionaries({
        "d": st.integers(2, 8), "pen": st.sampled_from(["diff", "diff", "random"]), "order": st.integers(1, 3), "r": st.integers(1, 8),
        "logscale": st.sampled_from([0.0, 0.0, -3.0, 3.0, 1.0]), "a": st.sampled_from([0.01, 0.5, 1.0, 3.0, 10.0]), "b": st.sampled_from([0.01, 0.5, 1.0, 3.0, 10.0]),
        "beta_kind": st.sampled_from(["random", "random", "null", "range"]), "builder": st.sampled_from(["distreg", "hand"]),
        "seed": st.integers(0, 10**6), "case_seed": st.integers(0, 2**30), "tau2_0": f32(-1, 1), "move_hyper": st.booleans(),
        # corners of "for all hyperparameters and coefficient values": a tiny inverse-gamma scale with tiny coefficients (conditional mass near 1e-8)
        # and huge coefficients (conditional mass near 1e7)
        "extreme": st.sampled_from([None, None, None, "tiny", "huge"]),
    })


def make_tau2_model(c):
    rng = np.random.default_rng([c["seed"], 13])
    d = c["d"]
    if c["pen"] == "diff":
        order = min(c["order"], d - 1)
        K, r = diff_penalty(d, order), d - order
    else:
        r = max(1, min(c["r"], d))
        Q, _ = np.linalg.qr(rng.normal(size=(d, d)))
        lam = np.exp(rng.uniform(math.log(0.05), math.log(5.0), size=r))
        K = (Q[:, :r] * lam) @ Q[:, :r].T
    K = ((K + K.T) / 2) * 10.0 ** c["logscale"]
    w, V = np.linalg.eigh(K)
    N, R = V[:, : d - r], V[:, d - r:]
    if c["beta_kind"] == "null" and r < d:
        beta = N @ rng.normal(size=d - r)
    elif c["beta_kind"] == "range":
        beta = R @ rng.normal(size=r)
    else:
        beta = rng.normal(size=d)
    beta = beta * {"tiny": 4e-5, "huge": 3e3}.get(c.get("extreme"), 1.0)
    n = 6
    X = rng.normal(size=(n, d)).astype(np.float32)
    y = rng.normal(size=n).astype(np.float32)
    K32, beta32 = K.astype(np.float32), beta.astype(np.float32)
    if c["builder"] == "distreg":
        b = DistRegBuilder()
        b.add_response(y, tfd.Normal)
        b.add_predictor("loc", tfb.Identity)
        b.add_predictor("scale", tfb.Exp)
        b.add_np_smooth(X, K32, c["a"], c["b"], "loc")
        b.add_p_smooth(np.ones((n, 1), dtype=np.float32), 0.0, 10.0, "scale")
        model = b.build_model()
        group = model.groups()["loc_np0"]
        model.vars["loc_np0_beta"].value = beta32
    else:
        Kv = lsl.Var(K32, name="K")
        av, bv = lsl.Var(np.float32(c["a"]), name="a"), lsl.Var(np.float32(c["b"]), name="b")
        rank = lsl.Var(np.int32(np.linalg.matrix_rank(K32)), name="rank")
        tau2 = lsl.param(np.float32(1.0), lsl.Dist(tfd.InverseGamma, concentration=av, scale=bv), name="tau2")
        betav = lsl.param(beta32, lsl.Dist(MultivariateNormalDegenerate.from_penalty, loc=np.float32(0.0), var=tau2, pen=Kv, rank=rank), name="beta")
        Xv = lsl.obs(X, name="X")
        mu = lsl.Var(lsl.Calc(lambda X, b: X @ b, Xv, betav), name="mu")
        yv = lsl.obs(y, lsl.Dist(tfd.Normal, loc=mu, scale=np.float32(1.0)), name="y")
        group = lsl.Group("smooth", tau2=tau2, beta=betav, K=Kv, a=av, b=bv, rank=rank)
        gb = lsl.GraphBuilder().add(yv)
        gb.add_groups(group)
        model = gb.build_model()
        group = model.groups()["smooth"]
    tname = group["tau2"].name
    model.vars[tname].value = np.float32(math.exp(c["tau2_0"]))
    declared_rank = int(np.linalg.matrix_rank(K32))
    quad = float(beta32.astype(np.float64) @ K32.astype(np.float64) @ beta32.astype(np.float64))
    return model, group, tname, declared_rank, quad, r, d


def oracle_tau2(c):
    if c.get("extreme"):
        c = dict(c, move_hyper=False, logscale=0.0, **({"b": 2e-8, "a": min(c["a"], 1.0)} if c["extreme"] == "tiny" else {}))
        if c["extreme"] == "huge" and c["beta_kind"] == "null":
            # huge coefficients inside the null space: beta' K beta is pure float32 cancellation noise (~1e-7 |beta|^2 |K|), not a quantity the
            # kernel could get right; such coefficients are given a range-space component instead
            c["beta_kind"] = "random"
    det = lambda: f"{c}"  # noqa: E731
    model, group, tname, rank, quad, r, d = make_tau2_model(c)
    kernel = tau2_gibbs_kernel(group)
    iface = gs.LieselInterface(model)
    kernel.set_model(iface)
    state = model.state
    if c.get("move_hyper"):
        # "given all other CURRENT values": the hyperparameters in the state are changed after the kernel was created
        c = dict(c, a=c["a"] * 2.0 + 0.5, b=c["b"] * 0.5 + 0.25)
        state = iface.update_state({group["a"].name: jnp.float32(c["a"]), group["b"].name: jnp.float32(c["b"])}, state)
    # --- the model's own full conditional of tau2 on a log grid
    a_an, b_an = c["a"] + 0.5 * rank, c["b"] + 0.5 * quad
    mode = b_an / (a_an + 1)
    grid = mode * np.exp(np.linspace(-2.5, 2.5, 40))
    lp = np.asarray(jax.vmap(lambda t: iface.log_prob(iface.update_state({tname: t}, state)))(jnp.asarray(grid.astype(np.float32))), dtype=np.float64)
    g32 = grid.astype(np.float32).astype(np.float64)
    A = np.stack([np.log(g32), 1.0 / g32, np.ones_like(g32)], axis=1)
    coef, res, *_ = np.linalg.lstsq(A, lp, rcond=None)
    fit = A @ coef
    resid = float(np.max(np.abs(fit - lp)))
    span = float(np.max(lp) - np.min(lp)) + 1.0
    require(resid <= 2e-3 * span + 2e-5 * np.max(np.abs(lp)), "tau2:model-conditional-not-inverse-gamma-shaped", lambda: f"residual {resid:.3g} (span {span:.3g}); {det()}")
    a_star, b_star = -coef[0] - 1.0, -coef[1]
    tol_a, tol_b = 0.01 * a_an + 1e-2 + 2e-5 * np.max(np.abs(lp)), 0.01 * b_an + 1e-2 * mode + 2e-5 * np.max(np.abs(lp)) * mode
    require(abs(a_star - a_an) <= tol_a and abs(b_star - b_an) <= tol_b, "tau2:model-conditional-differs-from-conjugate-update",
            lambda: f"identified (a*, b*) = ({a_star:.5g}, {b_star:.5g}) analytic ({a_an:.5g}, {b_an:.5g}) rank={rank} quad={quad:.5g}; {det()}")
    # --- the kernel's draws
    draw = jax.jit(jax.vmap(lambda k: kernel._transition_fn(k, state)[tname]))

    def stat(n, subseed):
        keys = jax.random.split(jax.random.PRNGKey((c["case_seed"] + 7919 * subseed) % 2**31), n)
        x = np.asarray(draw(keys), dtype=np.float64)
        require(bool(np.all(np.isfinite(x)) and np.all(x > 0)), "tau2:draw-not-positive-finite", det)
        u = sps.invgamma.cdf(x, a_an, scale=b_an)
        return {"ks": stats.ks_uniform_z(np.clip(u, 1e-300, 1.0)), "mean_log": stats.z_mean(np.log(x), math.log(b_an) - float(__import__("scipy.special").special.digamma(a_an)),
                                                                                                   math.sqrt(float(__import__("scipy.special").special.polygamma(1, a_an))))}

    sig, rep = stats.decide(stat, 8192, 1)
    if sig:
        raise Violation("tau2:draws-not-from-full-conditional", f"{sig}: {rep}; a*={a_an} b*={b_an}; {c}")
    # one transition through the kernel API moves only tau2 and keeps the state coherent
    out = kernel.transition(jax.random.PRNGKey(c["case_seed"] % 2**31), kernel.init_state(None, state), state, None)
    new = out.model_state
    require(float(new[group["tau2"].value_node.name].value) > 0 and out.info.acceptance_prob == 1.0, "tau2:transition-info", det)
    return {"nt": bool(r < d and quad > 1e-6), "cls": [c["builder"], c["pen"], "hyper-moved" if c.get("move_hyper") else "hyper-fixed", "deficient" if r < d else "full", c["beta_kind"], f"scale{c['logscale']}", f"extreme:{c.get('extreme')}"],
            "extra": {"max_abs_z": rep["max_abs_z"]}}


# ------------------------------------------------------------------------------ finite discrete
def gen_discrete():
    from hypothesis import strategies as st
    from vlib.gens import f32

    @st.composite
    def g(draw):
        k = draw(st.integers(2, 6))
        prior = draw(st.sampled_from(["finite", "finite", "bernoulli"]))
        if prior == "bernoulli":
            k = 2
        w = [draw(st.sampled_from([0.0, 1e-4, 0.05, 1.0, 1.0, 2.0, 5.0])) for _ in range(k)]
        if sum(1 for x in w if x > 0) < 2:
            w[0], w[-1] = 1.0, 2.0
        grid = [-1.5, -1.0, 0.0, 0.5, 1.0, 1.5, 2.0, 2.5, 3.0, 4.0]
        outcomes = sorted(draw(st.lists(st.sampled_from(grid), min_size=k, max_size=k, unique=True)))
        return {"prior": prior, "w": w, "outcomes": [float(o) for o in outcomes], "int_init": draw(st.booleans()), "path": draw(st.sampled_from(["none", "direct", "calc", "named_var", "two_level", "weak_resid"])),
                "explicit_outcomes": draw(st.booleans()), "n": draw(st.one_of(st.integers(1, 4), st.integers(1, 4), st.sampled_from([150, 400]))), "seed": draw(st.integers(0, 10**6)), "case_seed": draw(st.integers(0, 2**30)),
                "scale": draw(st.sampled_from([0.7, 1.5, 4.0])), "z0": draw(st.integers(0, 5)), "tempered": draw(st.integers(0, 3)) == 0}

    return g()


def make_discrete_model(c):
    rng = np.random.default_rng([c["seed"], 131])
    probs = np.array(c["w"], dtype=np.float64)
    probs = probs / probs.sum()
    if c["prior"] == "bernoulli":
        outcomes = np.array([0.0, 1.0])
        p1 = float(np.clip(probs[1], 0.0, 1.0))
        prior = lsl.Dist(tfd.Bernoulli, probs=np.float32(p1))
        z = lsl.param(np.int32(c["z0"] % 2), prior, name="z")
        probs = np.array([1 - p1, p1])
    else:
        outcomes = np.array(c["outcomes"])
        prior = lsl.Dist(tfd.FiniteDiscrete, outcomes=outcomes.astype(np.float32), probs=probs.astype(np.float32))
        z_init = outcomes[c["z0"] % len(outcomes)]
        # the current value may be integer-typed although the outcome grid is not (e.g. value=1 on the grid 0.5, 1, 1.5)
        z_val = np.int32(z_init) if (c.get("int_init") and float(z_init).is_integer()) else np.float32(z_init)
        z = lsl.param(z_val, prior, name="z")
    y = rng.normal(size=c["n"]).astype(np.float32) + 1.0
    sc = np.float32(c["scale"])
    path = c["path"]
    if path == "none":
        roots = [z]
    elif path == "direct":
        # (an integer-valued Bernoulli variable cannot feed a float parameter directly: TFP rejects mixed dtypes)
        int_typed = c["prior"] == "bernoulli" or c.get("int_init")
        loc = z if not int_typed else lsl.Calc(lambda v: jnp.asarray(v, dtype=jnp.float32), z)
        roots = [lsl.obs(y, lsl.Dist(tfd.Normal, loc=loc, scale=sc), name="y")]
    elif path == "calc":
        roots = [lsl.obs(y, lsl.Dist(tfd.Normal, loc=lsl.Calc(lambda v: 0.5 * jnp.asarray(v, dtype=jnp.float32) - 0.25, z), scale=sc), name="y")]
    elif path == "named_var":
        mu = lsl.Var(lsl.Calc(lambda v: 0.5 * jnp.asarray(v, dtype=jnp.float32) - 0.25, z), name="mu")
        roots = [lsl.obs(y, lsl.Dist(tfd.Normal, loc=mu, scale=sc), name="y")]
    elif path == "weak_resid":
        # the likelihood sits on a weak variable (residual = y - f(z)) that carries its own distribution
        resid = lsl.Var(lsl.Calc(lambda yy, v: jnp.asarray(yy) - (0.5 * jnp.asarray(v, dtype=jnp.float32) - 0.25), lsl.obs(y, name="y"), z),
                        lsl.Dist(tfd.Normal, loc=np.float32(0.0), scale=sc), name="resid")
        resid.observed = True
        roots = [resid]
    else:
        bscale = lsl.Var(lsl.Calc(lambda v: 0.3 + 0.4 * jnp.abs(jnp.asarray(v, dtype=jnp.float32)), z), name="beta_scale")
        beta = lsl.param(np.float32(0.8), lsl.Dist(tfd.Normal, loc=np.float32(0.0), scale=bscale), name="beta")
        roots = [lsl.obs(y, lsl.Dist(tfd.Normal, loc=beta, scale=sc), name="y")]
    gb = lsl.GraphBuilder().add(*roots, z)
    if c.get("tempered") and path in ("direct", "calc", "named_var", "two_level"):
        # user-defined joint density (GraphBuilder.log_prob_node): tempered likelihood times the prior of z
        gb.log_prob_node = lsl.Calc(lambda a, b: 0.5 * jnp.sum(a) + jnp.sum(b), roots[0].dist_node, z.dist_node, _name="tempered_lp")
    model = gb.build_model()
    return model, outcomes, probs


def oracle_discrete(c):
    det = lambda: f"{c}"  # noqa: E731
    model, outcomes, probs = make_discrete_model(c)
    # outcomes keep their own dtype (a float grid stays a float grid even if the current value happens to be integer-typed)
    zdt = np.int32 if c["prior"] == "bernoulli" else np.float32
    explicit = c["explicit_outcomes"]
    kernel = finite_discrete_gibbs_kernel("z", model, outcomes=list(outcomes.astype(zdt)) if explicit else None)
    iface = gs.LieselInterface(model)
    kernel.set_model(iface)
    state = model.state
    # exact conditional pmf from the model's own log-probability (direct assignment on a private copy, float64 softmax)
    import copy

    ref = copy.deepcopy(model)
    lps = []
    for o in outcomes:
        ref.vars["z"].value = np.asarray(o, dtype=zdt)
        ref.update()
        lps.append(float(np.asarray(ref.log_prob)))
    lps = np.array(lps, dtype=np.float64)
    fin = np.isfinite(lps)
    require(bool(np.any(fin)), "discrete:harness-no-finite-outcome", det)
    w = np.where(fin, np.exp(lps - np.max(lps[fin])), 0.0)
    pmf = w / w.sum()
    draw = jax.jit(jax.vmap(lambda k: kernel._transition_fn(k, state)["z"]))

    def stat(n, subseed):
        keys = jax.random.split(jax.random.PRNGKey((c["case_seed"] + 7919 * subseed) % 2**31), n)
        x = np.asarray(draw(keys), dtype=np.float64)
        out = {}
        for j, o in enumerate(outcomes):
            k = int(np.sum(x == o))
            if pmf[j] == 0.0:
                require(k == 0, "discrete:zero-probability-outcome-drawn", lambda: f"outcome {o} drawn {k} times; pmf={pmf.tolist()}; {det()}")
            else:
                out[f"freq_{j}"] = stats.z_binom(k, n, float(pmf[j]))
        require(int(np.sum(np.isin(x, outcomes))) == n, "discrete:draw-outside-outcome-set", det)
        return out

    sig, rep = stats.decide(stat, 16384, 1)
    if sig:
        raise Violation("discrete:draws-not-from-full-conditional", f"{sig}: {rep}; pmf={pmf.tolist()} prior={probs.tolist()}; {c}")
    informative = c["path"] != "none" and float(np.max(np.abs(pmf - probs))) > 0.02
    return {"nt": bool(informative and np.max(pmf) < 0.999), "cls": [c["prior"], c["path"], "explicit" if explicit else "inferred", "has-zero" if np.any(pmf == 0) else "all-pos"],
            "extra": {"max_abs_z": rep["max_abs_z"]}}


SUBS = [
    Sub("tau2", oracle_tau2, gen=gen_tau2, n={"quick": 48, "thorough": 800}, shrink={"quick": False, "thorough": False}, min_per_shard=3,
        what="tau2 Gibbs kernel vs the model's own full conditional (identified from its log-density)"),
    Sub("discrete", oracle_discrete, gen=gen_discrete, n={"quick": 64, "thorough": 1000}, shrink={"quick": False, "thorough": False}, min_per_shard=4,
        what="finite-discrete Gibbs kernel vs exact conditional pmf"),
]
