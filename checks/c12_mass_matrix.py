"""C12 — Mass-matrix adaptation is aligned with the parameters it scales.

Generated configurations: NUTS / HMC, diagonal / dense, position keys of shapes (), (2,), (2,2) listed in generated
(also non-alphabetical) orders, 1-3 slow-adaptation epochs, an unrelated RW kernel on another key, 2 chains, targets whose
flat coordinates have scales spread over two decades.  After every slow epoch the stored inverse mass matrix must equal
the (regularised) sample variance / covariance of that epoch's recorded history, entry i <-> flat coordinate i of the
kernel's position (ravel_pytree order); listing the same keys in another order must not change chains or matrices.
"""
from __future__ import annotations

import itertools

import numpy as np

from vlib.lz import gs, jax, jnp, tree_equal_bits
from vlib.runner import Sub, require

from liesel.goose.epoch import EpochConfig, EpochType
from liesel.goose.kernel_sequence import KernelSequence

PROPERTY = "C12"
RULE = ("cases = (kernel NUTS|HMC, mm_diag, subset of keys {a:(2,), b:(), c:(2,2), d:()} in a generated listing order, 1-3 slow epochs of "
        "100-140 iterations (or, half of the cases, 20-100 iterations thinned by 1-50 so that 2-100 draws are recorded, with fast epochs of 20-60) interleaved with fast / burn-in epochs, co-existing RW kernel yes/no, seed); non-trivial = listing order differs "
        "from sorted order and >= 2 keys (coordinates always have different variances); distinct = SHA-1 of the case")
ASSUMPTIONS = [
    "expected matrix = sample variance (ddof=1) / covariance of the epoch's recorded history + regulariser; accepted within 15% + 2e-3 so that "
    "a different regulariser (e.g. Stan's shrinkage) passes while a permutation (coordinate scales differ by up to 100x) cannot",
    "flat coordinate order is that of jax.flatten_util.ravel_pytree on the kernel's position (what blackjax uses)",
]
SHARDS = {"quick": 16, "thorough": 16}
TECHNIQUE = ("Hypothesis-generated key orders / shapes / schedules; oracle = float64 sample (co)variance of the recorded epoch history per "
             "flat coordinate; metamorphic relation: permuting position_keys leaves chains and tuned matrices bit-identical")
LEVEL_TEXT = ("Generated-configuration testing with an independent oracle computed from the engine's own recorded history, plus a "
              "metamorphic permutation test that needs no tolerance (bit-identical chains and matrices for every listing order). "
              "Exploration over the generated configurations, not a proof.")
LEVEL_NOTE = "Trusts numpy's var/cov and ravel_pytree's documented key order."

SHAPES = {"a": (2,), "b": (), "c": (2, 2), "d": ()}


def scales_for(keys):
    """per-coordinate standard deviations by sorted-flat index, spread over two decades"""
    n = sum(int(np.prod(SHAPES[k])) if SHAPES[k] else 1 for k in sorted(keys))
    sd = 10 ** np.linspace(-1, 1, n) if n > 1 else np.array([3.0])
    out, i = {}, 0
    for k in sorted(keys):
        m = int(np.prod(SHAPES[k])) if SHAPES[k] else 1
        out[k] = sd[i:i + m].reshape(SHAPES[k]).astype(np.float32)
        i += m
    return out


from typing import NamedTuple
from dataclasses import dataclass

from liesel.goose.pytree import register_dataclass_as_pytree


class NTState(NamedTuple):
    z: object
    a: object
    b: object
    c: object
    d: object


@register_dataclass_as_pytree
@dataclass
class DCState:
    z: object
    a: object
    b: object
    c: object
    d: object


def make_model(keys, offset=0.0, iface="dict"):
    """independent normals (mild coupling) with per-coordinate scales; located at `offset` (posteriors far from the origin relative to
    their width make one-pass variance formulas cancel catastrophically in float32)"""
    sc = {k: jnp.asarray(v) for k, v in scales_for(keys).items()}

    def lp(st_):
        s = st_ if isinstance(st_, dict) else {k: getattr(st_, k) for k in ("z",) + tuple(SHAPES)}
        tot = -0.5 * s["z"] ** 2
        for k in keys:
            tot = tot - 0.5 * jnp.sum(((s[k] - offset) / sc[k]) ** 2)
        ks = sorted(keys)
        if len(ks) >= 2:
            tot = tot - 0.05 * jnp.sum((s[ks[0]] - offset) / sc[ks[0]]) * jnp.sum((s[ks[1]] - offset) / sc[ks[1]])
        return tot

    return {"dict": gs.DictInterface, "namedtuple": gs.NamedTupleInterface, "dataclass": gs.DataclassInterface}[iface](lp)


def gen():
    from hypothesis import strategies as st

    @st.composite
    def g(draw):
        nk = draw(st.integers(1, 4))
        keys = list(draw(st.permutations(sorted(SHAPES))))[:nk]
        n_slow = draw(st.integers(1, 3))
        epochs = [[0, 1, 1]]
        short = draw(st.booleans())       # short / thinned slow epochs: few recorded draws, and slow epochs as long as an earlier fast epoch
        if draw(st.booleans()):
            epochs.append([1, draw(st.sampled_from([20, 40, 60])) if short else 20, 1])
        for i in range(n_slow):
            if short:
                dur = draw(st.sampled_from([20, 40, 60, 100] + 6 * [e[1] for e in epochs if e[0] in (1, 3)]))
                thin = draw(st.sampled_from([1, 1, 1, 5, 10, dur // 2, dur // 4]))
            else:
                dur, thin = 20 * draw(st.integers(5, 7)), 1
            epochs.append([2, dur, thin])
            if draw(st.booleans()):
                epochs.append([draw(st.sampled_from([1, 3])), draw(st.sampled_from([20, 40])) if short else 20, 1])
        epochs.append([4, 20, 1])
        return {"kernel": draw(st.sampled_from(["nuts", "hmc"])), "diag": draw(st.booleans()), "keys": keys, "epochs": epochs,
                "other": draw(st.booleans()), "seed": draw(st.integers(0, 2**20)), "perm_seed": draw(st.integers(0, 23)),
                "offset": draw(st.sampled_from([0.0, 0.0, 30.0, -400.0, 1000.0])), "iface": draw(st.sampled_from(["dict", "dict", "namedtuple", "dataclass"])),
                "upfront": draw(st.sampled_from([None, None, 1, 2]))}

    return g()


def run(c, keys):
    model = make_model(c["keys"], float(c.get("offset", 0.0)), c.get("iface", "dict"))
    if c["kernel"] == "nuts":
        ker = gs.NUTSKernel(keys, initial_step_size=0.05, max_treedepth=5, mm_diag=c["diag"])
    else:
        ker = gs.HMCKernel(keys, initial_step_size=0.05, num_integration_steps=8, mm_diag=c["diag"])
    ker.identifier = "hmc_like"
    kernels = [ker]
    if c["other"]:
        rw = gs.RWKernel(["z"], initial_step_size=1.0)
        rw.identifier = "other"
        kernels = [rw, ker]
    for k in kernels:
        k.set_model(model)
    C = 2
    st0 = {"z": jnp.zeros((C,), dtype=jnp.float32)}
    for k in SHAPES:
        st0[k] = jnp.zeros((C,) + SHAPES[k], dtype=jnp.float32) + float(c.get("offset", 0.0)) + 0.1 * (1 + jnp.arange(C, dtype=jnp.float32).reshape((C,) + (1,) * len(SHAPES[k])))
    if c.get("iface", "dict") != "dict":
        st0 = {"namedtuple": NTState, "dataclass": DCState}[c["iface"]](**st0)
    tracked = list(keys) + (["z"] if c["other"] else [])
    cfgs = [EpochConfig(EpochType(t), d, k, None) for t, d, k in c["epochs"]]
    n0 = max(1, min(len(cfgs), c.get("upfront") or len(cfgs)))           # epochs known when the engine is made; the others are appended afterwards
    eng = gs.Engine(seeds=jax.random.split(jax.random.PRNGKey(c["seed"]), C), model_states=st0, kernel_sequence=KernelSequence(kernels),
                    epoch_configs=cfgs[:n0], jitted_sample_duration=20,
                    model=model, position_keys=tracked, store_kernel_states=True, show_progress=False)
    for cfg in cfgs[n0:]:
        eng.append_epoch(cfg)
    eng.sample_all_epochs()
    res = eng.get_results()
    ks = res.kernel_states.unwrap().combine_all().unwrap()[len(kernels) - 1]
    return res, np.asarray(ks.inverse_mass_matrix), np.asarray(ks.step_size)


def oracle(c):
    keys = list(c["keys"])
    res, imm, step = run(c, keys)
    pos = res.get_samples()
    det0 = f"{c}"
    flat_keys = sorted(keys)
    t = 1                                                       # index into stored kernel states (never thinned; 0 = initial)
    tp = 1                                                      # index into stored positions (thinned: iterations 0, th, 2 th, ... of each epoch)
    n_checked = 0
    few = False
    for ei, (typ, dur, thin) in enumerate(c["epochs"]):
        if ei == 0:
            continue
        rec = -(-dur // thin)
        if typ == 2:
            few = few or rec <= 5
            for ch in range(2):
                H = np.concatenate([np.asarray(pos[k])[ch, tp:tp + rec].reshape(rec, -1).astype(np.float64) for k in flat_keys], axis=1)
                got = imm[ch, t + dur]                           # first kernel state of the next epoch = after tuning
                before = imm[ch, t + dur - 1]
                if c["diag"]:
                    exp = H.var(axis=0, ddof=1) + 1e-3
                    ok = got.shape == exp.shape and np.all(np.abs(got - exp) <= 0.15 * exp + 2e-3)
                else:
                    exp = np.atleast_2d(np.cov(H, rowvar=False)) + 1e-3 * np.eye(H.shape[1])
                    scale = np.sqrt(np.outer(np.diag(exp), np.diag(exp)))
                    ok = got.shape == exp.shape and np.all(np.abs(got - exp) <= 0.15 * scale + 2e-3)
                if not ok:
                    # classify: is it a permutation of the expected matrix?
                    sig = "inverse-mass-matrix:not-sample-variance-of-epoch-history"
                    if got.shape == exp.shape:
                        d = H.shape[1]
                        for perm in itertools.permutations(range(d)) if d <= 6 else []:
                            p = list(perm)
                            e2 = exp[p] if c["diag"] else exp[np.ix_(p, p)]
                            sc2 = (0.15 * e2 + 2e-3) if c["diag"] else (0.15 * np.sqrt(np.outer(np.diag(e2), np.diag(e2))) + 2e-3)
                            if np.all(np.abs(got - e2) <= sc2):
                                sig = "inverse-mass-matrix:permuted-coordinates"
                                break
                        if np.array_equal(got, before):
                            sig = "inverse-mass-matrix:not-tuned-after-slow-epoch"
                    require(False, sig, lambda: f"chain {ch} after epoch #{ei}: got {np.round(got, 4).tolist()} expected {np.round(exp, 4).tolist()} "
                                                f"(flat order {flat_keys}); {det0}")
                n_checked += 1
        else:
            # matrix unchanged by non-slow epochs
            for ch in range(2):
                if t + dur < imm.shape[1]:
                    require(np.array_equal(imm[ch, t + dur], imm[ch, t]), "inverse-mass-matrix:changed-outside-slow-adaptation", f"epoch #{ei} type {typ}; {det0}")
        t += dur
        tp += rec
    n_pos = np.asarray(pos[flat_keys[0]]).shape[1]
    if tp != n_pos or t != imm.shape[1]:
        raise RuntimeError(f"harness: stored-length bookkeeping is off: positions {n_pos} vs {tp}, kernel states {imm.shape[1]} vs {t}; {det0}")
    # metamorphic: any other listing order of the same keys gives bit-identical chains and matrices
    nt = False
    if len(keys) >= 2:
        perms = [list(p) for p in itertools.permutations(keys) if list(p) != keys]
        other = perms[c["perm_seed"] % len(perms)]
        res2, imm2, step2 = run(c, other)
        same_pos = tree_equal_bits({k: pos[k] for k in keys}, {k: res2.get_samples()[k] for k in keys})
        require(np.array_equal(imm, imm2), "key-order-dependence:tuned-matrix", f"orders {keys} vs {other}; {det0}")
        require(same_pos and np.array_equal(step, step2), "key-order-dependence:chains", f"orders {keys} vs {other}; {det0}")
        nt = keys != sorted(keys) or other != sorted(other)
    return {"nt": bool(nt and n_checked), "cls": [c["kernel"], "diag" if c["diag"] else "dense", f"keys{len(keys)}",
                                                   "sorted" if keys == sorted(keys) else "unsorted", "other" if c["other"] else "alone",
                                                   f"slow{sum(1 for e in c['epochs'] if e[0] == 2)}", "offset" if c.get("offset") else "centred",
                                                   "few-draws" if few else "many-draws", "appended-epochs" if c.get("upfront") else "all-upfront", "iface:" + c.get("iface", "dict"),
                                                   "slow-as-long-as-earlier-fast" if any(e[0] == 2 and any(f[0] in (1, 3) and -(-f[1] // f[2]) == -(-e[1] // e[2]) for f in c["epochs"][:i])
                                                                                       for i, e in enumerate(c["epochs"])) else "slow-lengths-unique"]}


SUBS = [
    Sub("alignment", oracle, gen=gen, n={"quick": 32, "thorough": 400}, shrink_calls=10, min_per_shard=2,
        what="tuned inverse mass matrix vs per-coordinate sample (co)variance of the recorded slow-epoch history; key-order invariance"),
]
