"""Quiet import of jax / liesel and small shared helpers."""
import contextlib
import io
import os
import sys

import numpy as np

from vlib import quiet

with contextlib.redirect_stderr(io.StringIO()):
    import jax
    import jax.numpy as jnp
    import liesel
    import liesel.goose as gs
    import liesel.model as lsl
    import tensorflow_probability.substrates.jax.bijectors as tfb
    import tensorflow_probability.substrates.jax.distributions as tfd

quiet.quiet_liesel()

if os.environ.get("VERIF_X64") == "1":
    jax.config.update("jax_enable_x64", True)


@contextlib.contextmanager
def silence():
    """Swallow stderr/stdout chatter (tqdm bars of optim_flat etc.)."""
    so, se = sys.stdout, sys.stderr
    try:
        sys.stdout, sys.stderr = io.StringIO(), io.StringIO()
        yield
    finally:
        sys.stdout, sys.stderr = so, se


def tree_equal_bits(a, b) -> bool:
    """Bitwise pytree equality (NaN == NaN, -0.0 != 0.0 ignored: compares values with NaN-awareness)."""
    la, ta = jax.tree_util.tree_flatten(a)
    lb, tb = jax.tree_util.tree_flatten(b)
    if ta != tb or len(la) != len(lb):
        return False
    for x, y in zip(la, lb):
        x, y = np.asarray(x), np.asarray(y)
        if x.shape != y.shape:
            return False
        if x.dtype.kind in "fc" or y.dtype.kind in "fc":
            if not np.array_equal(x, y, equal_nan=True):
                return False
        elif not np.array_equal(x, y):
            return False
    return True


def np_tree(t):
    return jax.tree_util.tree_map(lambda x: np.asarray(x), t)
