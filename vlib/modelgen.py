"""Model-program specs -> (liesel model, independent float64 oracle).   (C02 C03 C09 C14 C17)

A spec is plain JSON-able data: {"n": int, "vars": [decl, ...], "extras": {...}} with declarations in dependency order

  decl = {"name": str, "role": "param" | "obs" | "plain" | "unflagged", "shape": "scalar" | "vector",
          "family": None | family name, "params": {pname: ref}, "per_obs": bool, "z": [floats]   # unconstrained value(s)
          "transform": None | "default" | "exp" | "softplus" | "sigmoid"  (only used by builders that ask for it)}
  ref  = ["const", number] | ["var", index] | ["calc", fn, index, via]
         fn  in {"exp", "softplus", "affine", "sigmoid", "sum"}; via in {"calc", "tcalc", "wvar", "bare"}

Supports are respected by construction: values are drawn on an unconstrained scale ("z") and mapped into the support, and
every distribution parameter slot only accepts references whose value lies in the slot's domain.

The oracle walks the *spec* (never the liesel graph) with scipy.stats in float64; it imports neither liesel nor TFP.
"""
from __future__ import annotations

import math

import numpy as np
from scipy import special as sp
from scipy import stats as sps

# family -> (parameter slots with domain, support of the variable)
FAMILIES = {
    "Normal": ({"loc": "real", "scale": "pos"}, "real"),
    "HalfNormal": ({"scale": "pos"}, "pos"),
    "Gamma": ({"concentration": "pos", "rate": "pos"}, "pos"),
    "InverseGamma": ({"concentration": "pos", "scale": "pos"}, "pos"),
    "Exponential": ({"rate": "pos"}, "pos"),
    "LogNormal": ({"loc": "real", "scale": "pos"}, "pos"),
    "Beta": ({"concentration1": "pos", "concentration0": "pos"}, "unit"),
    "Uniform": ({"low": "neg_const", "high": "pos_const"}, "bounded"),
    "Poisson": ({"rate": "pos"}, "count"),
    "Bernoulli": ({"probs": "unit"}, "binary"),
}
CONTINUOUS = ["Normal", "HalfNormal", "Gamma", "InverseGamma", "Exponential", "LogNormal", "Beta", "Uniform"]


# ------------------------------------------------------------------------------ value maps (numpy, float64)
def to_support(z, support, low=-3.0, high=3.0):
    z = np.asarray(z, dtype=np.float64)
    if support == "real":
        return 1.5 * z
    if support == "pos":
        return np.exp(0.7 * z)
    if support == "unit":
        return 0.02 + 0.96 / (1 + np.exp(-z))
    if support == "bounded":
        return low + (high - low) * (0.02 + 0.96 / (1 + np.exp(-z)))
    if support == "count":
        return np.floor(np.abs(2.0 * z))
    if support == "binary":
        return (z > 0).astype(np.float64)
    raise ValueError(support)


def calc_np(fn, x):
    x = np.asarray(x, dtype=np.float64)
    if fn == "exp":
        return np.exp(0.3 * x)
    if fn == "softplus":
        return np.logaddexp(0.0, x) + 0.05
    if fn == "affine":
        return 0.5 * x + 0.25
    if fn == "sigmoid":
        return 0.02 + 0.96 * sp.expit(x)
    if fn == "sum":
        return np.sum(x)
    raise ValueError(fn)


def logpdf_np(family, params, x):
    """float64 log-density (elementwise, broadcast)."""
    p = {k: np.asarray(v, dtype=np.float64) for k, v in params.items()}
    x = np.asarray(x, dtype=np.float64)
    if family == "Normal":
        return sps.norm.logpdf(x, p["loc"], p["scale"])
    if family == "HalfNormal":
        return sps.halfnorm.logpdf(x, scale=p["scale"])
    if family == "Gamma":
        return sps.gamma.logpdf(x, p["concentration"], scale=1.0 / p["rate"])
    if family == "InverseGamma":
        return sps.invgamma.logpdf(x, p["concentration"], scale=p["scale"])
    if family == "Exponential":
        return sps.expon.logpdf(x, scale=1.0 / p["rate"])
    if family == "LogNormal":
        return sps.lognorm.logpdf(x, p["scale"], scale=np.exp(p["loc"]))
    if family == "Beta":
        return sps.beta.logpdf(x, p["concentration1"], p["concentration0"])
    if family == "Uniform":
        return sps.uniform.logpdf(x, p["low"], p["high"] - p["low"])
    if family == "Poisson":
        return sps.poisson.logpmf(x, p["rate"])
    if family == "Bernoulli":
        return sps.bernoulli.logpmf(x, p["probs"])
    raise ValueError(family)


# ------------------------------------------------------------------------------ generation
def domain_ok(domain, support):
    """may a variable with `support` feed a parameter slot of `domain` directly?"""
    if domain == "real":
        return support in ("real", "pos", "unit", "bounded")
    if domain == "pos":
        return support in ("pos", "unit")
    if domain == "unit":
        return support == "unit"
    return False


def spec_strategy(min_vars=1, max_vars=6, families=None, allow_discrete=True, roles=("param", "obs", "plain", "unflagged"),
                  allow_calc=True, require_dist_last=True, allow_weak=False):
    from hypothesis import strategies as st

    fams = list(families or (CONTINUOUS + (["Poisson", "Bernoulli"] if allow_discrete else [])))

    @st.composite
    def g(draw):
        n = draw(st.sampled_from([2, 3, 5]))
        nv = draw(st.integers(min_vars, max_vars))
        decls = []
        for i in range(nv):
            last = i == nv - 1
            has_dist = draw(st.integers(0, 4)) > 0 or (last and require_dist_last)
            shape = draw(st.sampled_from(["scalar", "scalar", "vector"])) if not last else draw(st.sampled_from(["vector", "vector", "scalar"]))
            d = {"name": f"v{i}", "shape": shape, "family": None, "params": {}, "per_obs": draw(st.booleans()),
                 "z": [draw(st.floats(-2, 2, width=32)) for _ in range(n if shape == "vector" else 1)], "transform": None}
            if has_dist:
                fam = draw(st.sampled_from(fams))
                d["family"] = fam
                slots, support = FAMILIES[fam]
                for pname, dom in slots.items():
                    d["params"][pname] = draw_ref(draw, st, dom, decls, shape, allow_calc)
                d["role"] = draw(st.sampled_from([r for r in roles if r != "plain"] or ["param"]))
                if last:
                    d["role"] = draw(st.sampled_from(["obs", "obs", "param", "unflagged"] if "unflagged" in roles else ["obs", "param"]))
                if "both" in roles and draw(st.integers(0, 7)) == 0:
                    d["role"] = "both"
                d["support"] = support
            else:
                d["role"] = "plain"
                d["support"] = draw(st.sampled_from(["real", "pos", "unit"]))
            # a weak variable (value = calculation of an earlier variable) that carries its own distribution, e.g. residuals
            if allow_weak and has_dist and d["family"] == "Normal" and i > 0 and draw(st.integers(0, 3)) == 0:
                cands = [j for j, dj in enumerate(decls) if dj["support"] in ("real", "pos", "unit", "bounded") and (dj["shape"] == shape or dj["shape"] == "scalar")]
                if cands:
                    d["weak_of"] = ["affine", draw(st.sampled_from(cands))]
            decls.append(d)
        return {"n": n, "vars": decls, "extras": {}}

    return g()


def draw_ref(draw, st, dom, decls, shape, allow_calc=True):
    if dom == "neg_const":
        return ["const", -float(draw(st.integers(1, 4)))]
    if dom == "pos_const":
        return ["const", float(draw(st.integers(1, 4)))]
    cands = []
    for j, dj in enumerate(decls):
        if dj["shape"] == "vector" and shape == "scalar":
            continue  # a scalar variable never gets a vector-valued parameter (shapes stay value-shaped)
        if dj["support"] in ("count", "binary"):
            continue
        if domain_ok(dom, dj["support"]):
            cands.append(["var", j])
        if allow_calc:
            for fn, out in (("exp", "pos"), ("softplus", "pos"), ("affine", "real"), ("sigmoid", "unit")):
                if out == dom and dj["support"] in ("real", "bounded", "unit", "pos"):
                    if fn == "affine" or dj["support"] in ("real", "bounded", "unit"):
                        cands.append(["calc", fn, j, "?"])
    const = {"real": st.sampled_from([0.0, 0.5, -1.0, 2.0]), "pos": st.sampled_from([0.5, 1.0, 2.0, 3.0]), "unit": st.sampled_from([0.2, 0.5, 0.7])}[dom]
    if cands and draw(st.integers(0, 3)) > 0:
        ref = list(draw(st.sampled_from(cands)))
        if ref[0] == "calc":
            ref[3] = draw(st.sampled_from(["calc", "tcalc", "wvar", "bare"]))
        return ref
    return ["const", draw(const)]


# ------------------------------------------------------------------------------ oracle
def low_high(d):
    if d["family"] == "Uniform":
        return d["params"]["low"][1], d["params"]["high"][1]
    return -3.0, 3.0


def initial_values(spec):
    return values_from_z(spec, [d["z"] for d in spec["vars"]])


def values_from_z(spec, zs):
    """zs: list (per var) of unconstrained arrays -> in-support values (weak variables are computed from their source)"""
    out = []
    for d, z in zip(spec["vars"], zs):
        if d.get("weak_of"):
            fn, j = d["weak_of"]
            v = np.asarray(calc_np(fn, out[j]), dtype=np.float64)
            out.append(np.broadcast_to(v, (len(d["z"]),)).copy() if d["shape"] == "vector" else v.reshape(()))
            continue
        lo, hi = low_high(d)
        v = to_support(np.asarray(z, dtype=np.float64), d["support"], lo, hi)
        out.append(v if d["shape"] == "vector" else v.reshape(()))
    return out


def ref_value(ref, values):
    if ref[0] == "const":
        return np.float64(ref[1])
    if ref[0] == "var":
        return values[ref[1]]
    return calc_np(ref[1], values[ref[2]])


def oracle_terms(spec, values):
    """per variable: None or float64 array of per-observation log-densities (value-shaped)"""
    out = []
    for d, v in zip(spec["vars"], values):
        if d["family"] is None:
            out.append(None)
            continue
        params = {k: ref_value(r, values) for k, r in d["params"].items()}
        lp = np.asarray(logpdf_np(d["family"], params, v), dtype=np.float64)
        # batch shape of the distribution may exceed the value shape (vector parameter, scalar value does not occur by construction)
        out.append(np.broadcast_to(lp, np.broadcast_shapes(lp.shape, np.shape(v))).copy())
    return out


def oracle_totals(spec, values):
    terms = oracle_terms(spec, values)
    tot = {"log_prob": 0.0, "log_lik": 0.0, "log_prior": 0.0, "abs": 0.0, "n_terms": 0}
    for d, t in zip(spec["vars"], terms):
        if t is None:
            continue
        s = float(np.sum(t))
        tot["log_prob"] += s
        tot["abs"] += float(np.sum(np.abs(t)))
        tot["n_terms"] += int(np.size(t))
        if d["role"] in ("obs", "both"):
            tot["log_lik"] += s
        if d["role"] in ("param", "both"):
            tot["log_prior"] += s
    return tot, terms


def tol(abs_sum, n_terms, x64=False):
    if x64:
        return 1e-9 * (1 + abs_sum)
    return 1e-5 + 2e-5 * (1 + math.log2(max(n_terms, 1) + 1)) * (1 + abs_sum)


# ------------------------------------------------------------------------------ liesel builder
def build(spec, per_obs_override=None, float_dtype=np.float32, auto_update=True):
    """-> (model, vars list).  Only public liesel API."""
    from vlib.lz import jnp, lsl, tfd

    jfn = {
        "exp": lambda x: jnp.exp(0.3 * x),
        "softplus": lambda x: jnp.logaddexp(0.0, x) + 0.05,
        "affine": lambda x: 0.5 * jnp.asarray(x) + 0.25,   # (numpy 0-d float32 * python float would silently become float64)
        "sigmoid": lambda x: 0.02 + 0.96 / (1 + jnp.exp(-x)),
        "sum": lambda x: jnp.sum(x),
    }
    vals = initial_values(spec)
    lvars = []
    counter = [0]

    def mk_ref(ref):
        if ref[0] == "const":
            return float_dtype(ref[1])
        if ref[0] == "var":
            return lvars[ref[1]]
        fn, j, via = ref[1], ref[2], ref[3]
        counter[0] += 1
        nm = f"c{counter[0]}_{fn}"
        if via == "calc":
            return lsl.Calc(jfn[fn], lvars[j], _name=nm)
        if via == "tcalc":
            return lsl.TransientCalc(jfn[fn], lvars[j], _name=nm)
        if via == "wvar":
            return lsl.Var(lsl.Calc(jfn[fn], lvars[j]), name=nm)
        return lsl.Calc(jfn[fn], lvars[j])        # bare: unnamed

    for i, d in enumerate(spec["vars"]):
        dist = None
        if d["family"] is not None:
            kw = {k: mk_ref(r) for k, r in d["params"].items()}
            dist = lsl.Dist(getattr(tfd, d["family"]), **kw)
            po = d["per_obs"] if per_obs_override is None else per_obs_override[i]
            dist.per_obs = bool(po)
        v = np.asarray(vals[i], dtype=float_dtype)
        if d.get("weak_of"):
            fn, j = d["weak_of"]
            src = lvars[j]
            if d["shape"] == "vector" and spec["vars"][j]["shape"] == "scalar":
                n_ = len(d["z"])
                v = lsl.Calc(lambda x, _f=jfn[fn], _n=n_: jnp.broadcast_to(_f(x), (_n,)), src)
            else:
                v = lsl.Calc(jfn[fn], src)
        if d["role"] == "both":            # the two flags are independent attributes: a variable may carry both
            var = lsl.param(v, dist, name=d["name"])
            var.observed = True
        elif d["role"] == "param":
            var = lsl.param(v, dist, name=d["name"])
        elif d["role"] == "obs":
            var = lsl.obs(v, dist, name=d["name"])
        else:
            var = lsl.Var(v, dist, name=d["name"])
        lvars.append(var)
    return lvars


# ------------------------------------------------------------------------------ independent numpy ancestral sampler (domain filter for C17)
def sample_np(spec, rng):
    """one joint ancestral draw of all distributed variables (float64, numpy); plain variables keep their initial value"""
    vals = initial_values(spec)
    for i, d in enumerate(spec["vars"]):
        if d["family"] is None:
            continue
        p = {k: np.asarray(ref_value(r, vals), dtype=np.float64) for k, r in d["params"].items()}
        shp = np.shape(vals[i])
        with np.errstate(all="ignore"):
            f = d["family"]
            if f == "Normal":
                v = rng.normal(p["loc"], p["scale"], size=shp)
            elif f == "HalfNormal":
                v = np.abs(rng.normal(0.0, p["scale"], size=shp))
            elif f == "Gamma":
                v = rng.gamma(p["concentration"], 1.0 / p["rate"], size=shp)
            elif f == "InverseGamma":
                v = p["scale"] / rng.gamma(p["concentration"], 1.0, size=shp)
            elif f == "Exponential":
                v = rng.exponential(1.0 / p["rate"], size=shp)
            elif f == "LogNormal":
                v = np.exp(rng.normal(p["loc"], p["scale"], size=shp))
            elif f == "Beta":
                v = rng.beta(p["concentration1"], p["concentration0"], size=shp)
            elif f == "Uniform":
                v = rng.uniform(p["low"], p["high"], size=shp)
            else:
                raise ValueError(f)
        vals[i] = np.asarray(v, dtype=np.float64)
    return vals


def numerically_tame(spec, n=300, bound=1e4, seed=0):
    """False if ancestral draws make some value or parameter non-finite / astronomically large (float32 samplers would overflow or spin)"""
    rng = np.random.default_rng([seed, 1717])
    try:
        for _ in range(n):
            vals = sample_np(spec, rng)
            for i, d in enumerate(spec["vars"]):
                arrs = [vals[i]] + ([np.asarray(ref_value(r, vals), dtype=np.float64) for r in d["params"].values()] if d["family"] else [])
                for a in arrs:
                    if not np.all(np.isfinite(a)) or np.any(np.abs(a) > bound):
                        return False
                if d["family"]:
                    for k, r in d["params"].items():
                        v = np.asarray(ref_value(r, vals), dtype=np.float64)
                        # float32 samplers near the edge of a parameter space put atoms on the support boundary (Beta(2, 0.01) draws exactly 1.0)
                        if k.startswith("concentration") and np.any(v < 0.25):
                            return False
                        if k in ("scale", "rate") and np.any(v < 0.02):
                            return False
    except Exception:  # noqa: BLE001
        return False
    return True
