"""Common runner: tiers, seeds, sharding, evidence, VIOLATION / KNOWN-FINDING lines, exit codes.

A check module (checks/cNN_*.py) exposes

    PROPERTY     = "C05"
    RULE         = "how cases are generated and what makes one non-trivial"
    ASSUMPTIONS  = [...]
    SUBS         = [Sub(...), ...]        # independent sub-oracles
    SHARDS       = {"quick": 4, "thorough": 16}

A sub-oracle is either
  * kind "hyp":    gen() -> hypothesis strategy of JSON-able cases, oracle(case) -> info dict
  * kind "custom": run(ctx) drives its own enumeration and calls ctx.run_case(sub, case, oracle)
In both kinds ``oracle(case)`` raises ``Violation(signature, detail)`` when the property is broken
and otherwise returns ``{"nt": bool, "cls": [labels...]}`` (non-trivial flag + shape classes).
Replay = oracle(json.load(file)["case"]) without Hypothesis.
"""
from __future__ import annotations

import hashlib
import json
import math
import os
import subprocess
import sys
import time
import traceback
from collections import Counter
from dataclasses import dataclass, field
from typing import Any, Callable

VERIF_DIR = os.environ.get("VERIF_DIR", os.path.dirname(os.path.dirname(os.path.abspath(__file__))))
VERIF_REPO = os.path.realpath(os.environ.get("VERIF_REPO", "/repo"))


class Violation(AssertionError):
    """Raised by an oracle when the property is violated on a concrete case."""

    def __init__(self, signature: str, detail: str = ""):
        super().__init__(f"{signature}: {detail}")
        self.signature = signature
        self.detail = detail


class HarnessError(Exception):
    pass


def require(cond: bool, signature: str, detail: str | Callable[[], str] = ""):
    if not cond:
        raise Violation(signature, detail() if callable(detail) else detail)


@dataclass
class Sub:
    name: str
    oracle: Callable[[Any], dict | None]
    gen: Callable[[], Any] | None = None  # -> hypothesis strategy
    run: Callable[["Ctx"], None] | None = None  # custom driver
    n: dict = field(default_factory=lambda: {"quick": 100, "thorough": 1000})
    shrink: dict = field(default_factory=lambda: {"quick": True, "thorough": True})
    what: str = ""
    max_rounds: int = 3  # re-run after a violation, excluding found signatures, to enumerate root causes
    single_shard: bool = False  # custom subs that parallelise internally / are cheap
    min_per_shard: int = 4  # a sub with few cases runs on fewer shards (Hypothesis' first examples are the simplest ones)
    shrink_calls: int = 150  # oracle executions granted to the shrinker after the first failure (then new candidates are waved through)


def canon(case: Any) -> str:
    return json.dumps(case, sort_keys=True, default=_jsonable)


def _jsonable(x):
    try:
        import numpy as np

        if isinstance(x, (np.integer,)):
            return int(x)
        if isinstance(x, (np.floating,)):
            return float(x)
        if isinstance(x, np.ndarray):
            return x.tolist()
        if hasattr(x, "tolist"):
            return np.asarray(x).tolist()
    except Exception:
        pass
    if isinstance(x, (set, frozenset, tuple)):
        return list(x)
    return repr(x)


def digest(case: Any) -> str:
    return hashlib.sha1(canon(case).encode()).hexdigest()


def _short(case: Any, limit: int = 1800) -> Any:
    s = canon(case)
    if len(s) <= limit:
        return json.loads(s)
    return {"truncated_json": s[:limit] + "...", "len": len(s)}


def _through_liesel(tb) -> str | None:
    """Innermost liesel frame of a traceback (file:function), or None."""
    hit = None
    for fs in traceback.extract_tb(tb):
        fn = os.path.realpath(fs.filename)
        if fn.startswith(os.path.join(VERIF_REPO, "liesel") + os.sep):
            hit = f"{os.path.relpath(fn, VERIF_REPO)}:{fs.name}"
    return hit


def _exc_chain_liesel(e: BaseException) -> str | None:
    seen = set()
    while e is not None and id(e) not in seen:
        seen.add(id(e))
        hit = _through_liesel(e.__traceback__)
        if hit:
            return hit
        e = e.__cause__ or e.__context__
    return None


class Ctx:
    """Per-process (per-shard) collection of statistics and violations."""

    def __init__(self, pid: str, tier: str, seed: int, shard: int, nshards: int, known: list[dict]):
        self.pid, self.tier, self.seed, self.shard, self.nshards = pid, tier, seed, shard, nshards
        self.known = {(k["sub"], k["signature"]) for k in known}
        self.stats: dict[str, dict] = {}
        self.violations: list[dict] = []
        self.errors: list[str] = []
        self.excluded_now: set[tuple[str, str]] = set()
        self.t0 = time.time()
        self.budget_s = float(os.environ.get("VERIF_BUDGET_S", "0") or 0)
        self.truncated = False

    # ---------------------------------------------------------------- statistics
    def _st(self, sub: str) -> dict:
        return self.stats.setdefault(
            sub,
            {"evaluations": 0, "nt_digests": set(), "classes": Counter(), "samples": [], "known_excluded": 0,
             "excluded_again": 0, "skipped": 0, "extra": {}},
        )

    def count(self, sub: str, case: Any, info: dict | None):
        st = self._st(sub)
        st["evaluations"] += int((info or {}).get("weight", 1))
        info = info or {}
        for c in info.get("cls", ()):  # shape classes
            st["classes"][c] += 1
        if info.get("nt"):
            for d in info.get("digests") or [digest(case)]:
                st["nt_digests"].add(d)
            if len(st["samples"]) < 3:
                st["samples"].append(_short(info.get("sample", case)))
        elif not st["samples"] and "first" not in st:
            st["first"] = _short(info.get("sample", case))
        for k, v in (info.get("extra") or {}).items():
            if isinstance(v, (int, float)):
                st["extra"][k] = max(st["extra"].get(k, v), v) if k.startswith("max_") else st["extra"].get(k, 0) + v

    def over_budget(self) -> bool:
        if self.budget_s and time.time() - self.t0 > self.budget_s:
            self.truncated = True
            return True
        return False

    # ---------------------------------------------------------------- running one case
    def run_case(self, sub: Sub | str, case: Any, oracle: Callable[[Any], dict | None] | None = None,
                 reraise: bool = False) -> bool:
        """Run oracle(case); classify the outcome. Returns True when the case passed (or is a known finding)."""
        name = sub if isinstance(sub, str) else sub.name
        orc = oracle or (sub.oracle if isinstance(sub, Sub) else None)
        try:
            info = orc(case)
        except Violation as v:
            return self._on_violation(name, v, case, reraise)
        except (KeyboardInterrupt, SystemExit, HarnessError):
            raise
        except Exception as e:  # noqa: BLE001
            site = _exc_chain_liesel(e)
            if site is None or getattr(e, "_verif_harness", False):
                raise
            v = Violation(f"crash:{type(e).__name__}@{site}", "".join(traceback.format_exception_only(type(e), e))[:600])
            v.__cause__ = e
            return self._on_violation(name, v, case, reraise)
        self.count(name, case, info)
        self._housekeeping()
        return True

    def _housekeeping(self):
        """every engine / model builds fresh jitted functions: drop XLA's compilation caches now and then, or long runs exhaust memory"""
        self._n_cases = getattr(self, "_n_cases", 0) + 1
        if self._n_cases % 25 == 0 and "jax" in sys.modules:
            try:
                import gc

                sys.modules["jax"].clear_caches()
                gc.collect()
            except Exception:  # noqa: BLE001
                pass

    def _on_violation(self, name: str, v: Violation, case: Any, reraise: bool) -> bool:
        key = (name, v.signature)
        st = self._st(name)
        if key in self.known:
            st["known_excluded"] += 1
            st["evaluations"] += 1
            return True
        if key in self.excluded_now:
            st["excluded_again"] += 1
            st["evaluations"] += 1
            return True
        st["evaluations"] += 1
        if reraise:
            raise v
        self.violation(name, v.signature, case, v.detail)
        return False

    def violation(self, sub: str, signature: str, case: Any, detail: str = ""):
        self.violations.append({"sub": sub, "signature": signature, "case": json.loads(canon(case)), "detail": detail[:2000]})
        self.excluded_now.add((sub, signature))

    # ---------------------------------------------------------------- hypothesis driver
    def n_for(self, sub: Sub) -> int:
        """Cases this shard runs for sub (0 = this shard skips the sub)."""
        n = sub.n[self.tier]
        scale = float(os.environ.get("VERIF_SCALE", "1") or 1)
        n = max(1, int(n * scale))
        eff = max(1, min(self.nshards, n // max(1, sub.min_per_shard)))
        off = int(hashlib.sha1(sub.name.encode()).hexdigest()[:4], 16) % self.nshards  # spread small subs over different shards
        if (self.shard - off) % self.nshards >= eff:
            return 0
        return max(1, math.ceil(n / eff))

    def hseed(self, sub: Sub, rnd: int = 0) -> int:
        h = int(hashlib.sha1(f"{self.pid}/{sub.name}".encode()).hexdigest()[:6], 16)
        return (self.seed * 1_000_003 + self.shard * 7919 + h + rnd * 104729) % (2**31)

    def run_hyp(self, sub: Sub):
        import hypothesis
        from hypothesis import HealthCheck, Phase, given, settings

        n = self.n_for(sub)
        if n == 0:
            return
        rounds = int(os.environ.get("VERIF_MAX_ROUNDS", "0") or 0) or sub.max_rounds
        for rnd in range(rounds):
            last: dict = {"after": 0, "calls": 0}
            failed: dict = {}
            ctx = self
            # Hypothesis starts every run with the all-minimal example; only the lead shard of a sub evaluates it, the others skip
            # their first example (and get one more instead) so that small per-shard budgets are not spent on identical cases
            off = int(hashlib.sha1(sub.name.encode()).hexdigest()[:4], 16) % self.nshards
            skip_first = (self.shard - off) % self.nshards != 0

            do_shrink = sub.shrink[self.tier] and os.environ.get("VERIF_SHRINK", "1") != "0"
            phases = [Phase.generate] + ([Phase.shrink] if do_shrink else [])

            @hypothesis.seed(self.hseed(sub, rnd))
            @settings(max_examples=n + (1 if skip_first else 0), database=None, deadline=None, derandomize=False, report_multiple_bugs=False,
                      suppress_health_check=list(HealthCheck), phases=phases, print_blob=False)
            @given(sub.gen())
            def t(case):
                last["calls"] += 1
                if skip_first and last["calls"] == 1:
                    return
                if ctx.over_budget():
                    ctx._st(sub.name)["skipped"] += 1
                    return
                d = digest(case)
                if d in failed:
                    last["case"] = case
                    raise failed[d]
                if failed and last["after"] >= sub.shrink_calls:
                    return  # shrink budget used up: unseen candidates are not executed (cached failures still fail)
                last["case"] = case
                try:
                    ctx.run_case(sub, case, reraise=True)
                except Violation as v:
                    failed[d] = v
                    raise
                finally:
                    if failed:
                        last["after"] += 1

            try:
                t()
                return
            except Violation as v:
                self.violation(sub.name, v.signature, last.get("case"), v.detail)
                # loop again with this signature excluded to look for further root causes
            except (KeyboardInterrupt, SystemExit):
                raise
            except BaseException as e:  # noqa: BLE001  harness error (incl. hypothesis errors)
                self.errors.append(f"[{sub.name}] {type(e).__name__}: {e}\n" + traceback.format_exc()[-3000:])
                return

    def run_sub(self, sub: Sub):
        self._st(sub.name)
        if sub.run is not None:
            if sub.single_shard and self.shard != 0:
                return
            try:
                sub.run(self)
            except (KeyboardInterrupt, SystemExit):
                raise
            except BaseException as e:  # noqa: BLE001
                self.errors.append(f"[{sub.name}] {type(e).__name__}: {e}\n" + traceback.format_exc()[-3000:])
        else:
            self.run_hyp(sub)

    # ---------------------------------------------------------------- (de)serialisation between shard and parent
    def dump(self) -> dict:
        out = {"violations": self.violations, "errors": self.errors, "truncated": self.truncated, "stats": {}}
        for k, st in self.stats.items():
            out["stats"][k] = {
                "evaluations": st["evaluations"], "nt_digests": sorted(st["nt_digests"]), "classes": dict(st["classes"]),
                "samples": st["samples"] or ([st["first"]] if "first" in st else []),
                "known_excluded": st["known_excluded"], "excluded_again": st["excluded_again"], "skipped": st["skipped"],
                "extra": st["extra"],
            }
        return out


# =====================================================================================
def load_known(pid: str) -> tuple[list[dict], list[str]]:
    path = os.path.join(VERIF_DIR, "known_findings.json")
    if not os.path.exists(path):
        return [], []
    data = json.load(open(path))
    return [f for f in data.get("findings", []) if f.get("property") == pid], data.get("fixed", [])


def assert_repo():
    import liesel

    p = os.path.realpath(liesel.__file__)
    if not p.startswith(VERIF_REPO + os.sep):
        raise HarnessError(f"liesel imported from {p}, expected under {VERIF_REPO}")


def run_shard(mod, tier: str, seed: int, shard: int, nshards: int, only: str | None, out: str | None) -> dict:
    known, _ = load_known(mod.PROPERTY)
    ctx = Ctx(mod.PROPERTY, tier, seed, shard, nshards, known)
    try:
        assert_repo()
        for sub in mod.SUBS:
            if only and sub.name not in only.split(","):
                continue
            ctx.run_sub(sub)
    except BaseException as e:  # noqa: BLE001
        ctx.errors.append(f"[shard {shard}] {type(e).__name__}: {e}\n" + traceback.format_exc()[-3000:])
    res = ctx.dump()
    if out:
        with open(out, "w") as f:
            json.dump(res, f, default=_jsonable)
    return res


def merge(results: list[dict]) -> dict:
    tot = {"violations": [], "errors": [], "truncated": False, "stats": {}}
    for r in results:
        tot["violations"] += r["violations"]
        tot["errors"] += r["errors"]
        tot["truncated"] |= r.get("truncated", False)
        for k, st in r["stats"].items():
            t = tot["stats"].setdefault(k, {"evaluations": 0, "nt_digests": set(), "classes": Counter(), "samples": [],
                                            "known_excluded": 0, "excluded_again": 0, "skipped": 0, "extra": {}})
            t["evaluations"] += st["evaluations"]
            t["nt_digests"] |= set(st["nt_digests"])
            t["classes"].update(st["classes"])
            if len(t["samples"]) < 3:
                t["samples"] += st["samples"][: 3 - len(t["samples"])]
            for key in ("known_excluded", "excluded_again", "skipped"):
                t[key] += st[key]
            for ek, ev in st.get("extra", {}).items():
                t["extra"][ek] = max(t["extra"].get(ek, ev), ev) if ek.startswith("max_") else t["extra"].get(ek, 0) + ev
    return tot


def write_replays(pid: str, violations: list[dict]) -> list[tuple[dict, str]]:
    """One replay file per (sub, signature) bucket, the smallest case of the bucket."""
    buckets: dict[tuple[str, str], dict] = {}
    for v in violations:
        k = (v["sub"], v["signature"])
        if k not in buckets or len(canon(v["case"])) < len(canon(buckets[k]["case"])):
            buckets[k] = v
    out = []
    d = os.path.join(VERIF_DIR, "replays", pid)
    os.makedirs(d, exist_ok=True)
    for (sub, sig), v in sorted(buckets.items()):
        h = hashlib.sha1(f"{sub}|{sig}|{canon(v['case'])}".encode()).hexdigest()[:10]
        path = os.path.join(d, f"{sub}-{h}.json")
        with open(path, "w") as f:
            json.dump({"property": pid, "sub": sub, "signature": sig, "detail": v["detail"], "case": v["case"]}, f, indent=1,
                      default=_jsonable)
        out.append((v, path))
    return out


def replay_file(mod, path: str) -> int:
    assert_repo()
    data = json.load(open(path))
    sub = {s.name: s for s in mod.SUBS}.get(data["sub"])
    if sub is None:
        print(f"unknown sub-oracle {data['sub']}", file=sys.stderr)
        return 2
    ctx = Ctx(mod.PROPERTY, "quick", 0, 0, 1, [])
    ok = ctx.run_case(sub, data["case"])
    if ok:
        print(f"replay passed: property={mod.PROPERTY} sub={sub.name}")
        return 0
    v = ctx.violations[0]
    print(f"replay reproduces: {v['signature']}: {v['detail'][:400]}")
    print(f"VIOLATION property={mod.PROPERTY} replay={path}")
    return 1


def check_known(mod, known: list[dict]) -> list[str]:
    """Re-validate each listed finding against the real code; print KNOWN-FINDING only if it still fails that way."""
    lines = []
    subs = {s.name: s for s in mod.SUBS}
    for k in known:
        sub = subs.get(k["sub"])
        if sub is None:
            continue
        ctx = Ctx(mod.PROPERTY, "quick", 0, 0, 1, [])
        ok = ctx.run_case(sub, k["witness"])
        if not ok and ctx.violations[0]["signature"] == k["signature"]:
            lines.append(f"KNOWN-FINDING: property={mod.PROPERTY} {k['what']}")
        elif not ok:
            # the witness now fails differently: that is a new violation, report it
            lines.append(("NEW", ctx.violations[0], k))
        else:
            print(f"note: listed finding '{k['signature']}' no longer reproduces on its witness", file=sys.stderr)
    return lines


def main_run(mod, tier: str, seed: int, nshards: int | None, only: str | None) -> int:
    t0 = time.time()
    pid = mod.PROPERTY
    if nshards is None:
        nshards = int(os.environ.get("VERIF_SHARDS", "0") or 0) or getattr(mod, "SHARDS", {}).get(tier, 4)
    nshards = max(1, min(nshards, os.cpu_count() or 1))
    work = os.path.join(VERIF_DIR, ".work", pid, f"{tier}-{seed}-{os.getpid()}")
    os.makedirs(work, exist_ok=True)
    results = []
    if nshards == 1:
        results.append(run_shard(mod, tier, seed, 0, 1, only, None))
    else:
        procs = []
        timed_out: list[int] = []
        for i in range(nshards):
            out = os.path.join(work, f"shard-{i}.json")
            cmd = [sys.executable, "-m", "vlib.main", pid, "--tier", tier, "--shard", f"{i}/{nshards}", "--out", out]
            if only:
                cmd += ["--sub", only]
            env = dict(os.environ, VERIF_SEED=str(seed))
            if hasattr(mod, "shard_env"):
                env.update(mod.shard_env(i, nshards))
            log = open(os.path.join(work, f"shard-{i}.log"), "w")
            procs.append((i, out, subprocess.Popen(cmd, env=env, stdout=log, stderr=subprocess.STDOUT, cwd=VERIF_DIR), log))
        # watchdog: a shard that exceeds the wall budget is stopped; what the other shards explored is still reported and the
        # evidence says `truncated` (a time budget hit means inconclusive, never a violation)
        limit = float(os.environ.get("VERIF_WALL_S", "0") or 0) or {"quick": 1500.0, "thorough": 6 * 3600.0}[tier]
        deadline = time.time() + limit
        for i, out, p, log in procs:
            try:
                rc = p.wait(timeout=max(1.0, deadline - time.time()))
            except subprocess.TimeoutExpired:
                p.kill()
                p.wait()
                rc = -9
                timed_out.append(i)
            log.close()
            if os.path.exists(out):
                results.append(json.load(open(out)))
            elif i in timed_out:
                print(f"note: shard {i} exceeded the wall budget of {limit:.0f}s and was stopped (run truncated)", file=sys.stderr)
                results.append({"violations": [], "errors": [], "stats": {}, "truncated": True})
            else:
                tail = open(os.path.join(work, f"shard-{i}.log")).read()[-3000:]
                results.append({"violations": [], "errors": [f"shard {i} died rc={rc}: {tail}"], "stats": {}, "truncated": False})
    tot = merge(results)

    # seconds-long replay tier: the shrunk witnesses of defects that were repaired (corpus/regressions/<id>/*.json) are replayed by every
    # full run, so a defect that returns is reported with its original minimal input even if the random search misses it this time
    if not only:
        import glob as _glob

        rctx = Ctx(pid, tier, seed, 0, 1, load_known(pid)[0])
        subs_by_name = {s_.name: s_ for s_ in mod.SUBS}
        n_reg = 0
        for f in sorted(_glob.glob(os.path.join(VERIF_DIR, "corpus", "regressions", pid, "*.json"))):
            try:
                data = json.load(open(f))
                sub = subs_by_name.get(data.get("sub"))
                if sub is None:
                    continue
                n_reg += 1
                rctx.run_case(sub, data["case"])
            except Exception as e:  # noqa: BLE001
                tot["errors"].append(f"[regression {os.path.basename(f)}] {type(e).__name__}: {e}")
        tot["violations"] += rctx.violations
        tot["stats"].setdefault("regression_corpus", {"evaluations": 0, "nt_digests": set(), "classes": Counter(), "samples": [], "known_excluded": 0,
                                                       "excluded_again": 0, "skipped": 0, "extra": {}})["evaluations"] += n_reg

    known, _fixed = load_known(pid)
    new_from_known = []
    known_lines = []
    try:
        for item in check_known(mod, known):
            if isinstance(item, str):
                known_lines.append(item)
            else:
                new_from_known.append(item[1])
    except BaseException as e:  # noqa: BLE001
        tot["errors"].append(f"[known-findings] {type(e).__name__}: {e}\n" + traceback.format_exc()[-2000:])
    tot["violations"] += new_from_known

    if not only:  # a full run owns replays/<id>/: files of earlier runs would be misleading
        import glob

        for f in glob.glob(os.path.join(VERIF_DIR, "replays", pid, "*.json")):
            os.unlink(f)
    replays = write_replays(pid, tot["violations"])

    # ------------------------------------------------------------ evidence
    evaluations = sum(st["evaluations"] for st in tot["stats"].values())
    nt = set()
    for name, st in tot["stats"].items():
        nt |= {f"{name}:{d}" for d in st["nt_digests"]}
    samples = []
    for name, st in tot["stats"].items():
        for s in st["samples"][:2]:
            samples.append({"sub": name, "case": s})
    per_sub = {
        name: {"evaluations": st["evaluations"], "distinct_nontrivial": len(st["nt_digests"]), "classes": dict(st["classes"]),
               "known_excluded": st["known_excluded"], "skipped_over_budget": st["skipped"], **({"extra": st["extra"]} if st["extra"] else {})}
        for name, st in tot["stats"].items()
    }
    wall = time.time() - t0
    ev = {
        "property_id": pid, "tier": tier, "seed": seed, "level": "exploration",
        "coverage": {
            "evaluations": evaluations, "distinct_nontrivial": len(nt), "rule": mod.RULE, "samples": samples,
            "sub_oracles": per_sub, "shards": nshards, "truncated": bool(tot["truncated"]),
            "known_excluded": sum(st["known_excluded"] for st in tot["stats"].values()),
            "known_findings_reported": known_lines,
            "exhaustive": bool(getattr(mod, "EXHAUSTIVE", False)),
            "sub_oracle_descriptions": {s.name: s.what for s in mod.SUBS if s.what},
        },
        "assumptions": list(getattr(mod, "ASSUMPTIONS", [])),
        "wall_s": round(wall, 2),
        "violations": len(replays),
    }
    if replays:
        ev["coverage"]["violation_buckets"] = [{"sub": v["sub"], "signature": v["signature"], "replay": os.path.relpath(p, VERIF_DIR)} for v, p in replays]
    harness_bad = bool(tot["errors"]) or evaluations < 1 or (len(nt) < 2 and not only)
    if not only:  # partial runs never overwrite the evidence of a full run
        # evidence describes /repo itself: runs against a scratch copy (mutation driver) write elsewhere
        evdir = "evidence" if VERIF_REPO == os.path.realpath("/repo") else os.path.join(".work", "evidence-scratch")
        os.makedirs(os.path.join(VERIF_DIR, evdir), exist_ok=True)
        evp = os.path.join(VERIF_DIR, evdir, f"{pid}.json")
        with open(evp, "w") as f:
            json.dump(ev, f, indent=1, default=_jsonable)
        try:
            import jsonschema

            schema_p = "/root/.vp/EVIDENCE.schema.json"
            if not os.path.exists(schema_p):
                schema_p = os.path.join(VERIF_DIR, "vlib", "EVIDENCE.schema.json")
            jsonschema.validate(json.load(open(evp)), json.load(open(schema_p)))
        except ImportError:
            pass
        except Exception as e:  # noqa: BLE001
            if not harness_bad:
                tot["errors"].append(f"evidence does not validate: {e}")
                harness_bad = True

    # ------------------------------------------------------------ report
    for line in known_lines:
        print(line)
    print(f"[{pid}] tier={tier} seed={seed} shards={nshards} evaluations={evaluations} distinct_nontrivial={len(nt)} "
          f"violations={len(replays)} wall={wall:.1f}s")
    for name, st in per_sub.items():
        print(f"    {name}: n={st['evaluations']} nt={st['distinct_nontrivial']} known_excluded={st['known_excluded']} classes={st['classes']}")
    for e in tot["errors"]:
        print("HARNESS-ERROR " + e, file=sys.stderr)
    if replays:
        for v, p in replays:
            print(f"  violation sub={v['sub']} signature={v['signature']} :: {v['detail'][:300]}")
        for v, p in replays:
            print(f"VIOLATION property={pid} replay={p}")
        _cleanup(work)
        return 1
    if harness_bad:
        if not tot["errors"]:
            print(f"HARNESS-ERROR too few non-trivial cases ({len(nt)})", file=sys.stderr)
        return 2
    _cleanup(work)
    return 0


def _cleanup(work: str):
    import shutil

    shutil.rmtree(work, ignore_errors=True)
