"""Statistical decision policy (DESIGN 2.6): stage-1 threshold + independent confirmation.

``stat_fn(n, subseed) -> {name: z}`` must return (approximately) standard-normal z-scores under the
null hypothesis "the property holds".  KS p-values are converted with ``p_to_z``.
A violation is reported only if some statistic exceeds |z| > Z1 at sample size n and then, in three
fresh independent replications at 4n, exceeds |z| > Z2 every time with the same sign.
"""
from __future__ import annotations

import math

import numpy as np
from scipy import stats as sps

Z1 = 6.0
Z2 = 4.0
ZS = 4.5


def p_to_z(p: float) -> float:
    p = min(max(float(p), 1e-300), 1.0)
    return float(sps.norm.isf(p / 2.0))


def z_mean(x: np.ndarray, mu: float = 0.0, sd: float | None = None) -> float:
    x = np.asarray(x, dtype=np.float64)
    n = x.size
    s = float(np.std(x, ddof=1)) if sd is None else sd
    if not np.isfinite(s) or s <= 0:
        return 0.0 if abs(float(np.mean(x)) - mu) < 1e-12 else math.copysign(1e9, float(np.mean(x)) - mu)
    return float((np.mean(x) - mu) / (s / math.sqrt(n)))


def z_binom(k: int, n: int, p: float) -> float:
    """z-score of k successes out of n under success prob p (exact tail for small variance)."""
    if p <= 0.0:
        return 0.0 if k == 0 else 1e9
    if p >= 1.0:
        return 0.0 if k == n else -1e9
    var = n * p * (1 - p)
    if var < 25:  # use exact binomial tail, converted to z
        lo = sps.binom.cdf(k, n, p)
        hi = sps.binom.sf(k - 1, n, p)
        pv = min(1.0, 2 * min(lo, hi))
        return math.copysign(p_to_z(pv), k - n * p)
    return float((k - n * p) / math.sqrt(var))


def ks_z(x: np.ndarray, cdf) -> float:
    x = np.asarray(x, dtype=np.float64)
    d, p = sps.kstest(x, cdf)
    return p_to_z(p)


def ks_uniform_z(u: np.ndarray) -> float:
    u = np.asarray(u, dtype=np.float64)
    d, p = sps.kstest(u, "uniform")
    return p_to_z(p)


def decide(stat_fn, n: int, seed: int, confirm_mult: int = 4) -> tuple[str | None, dict]:
    """Returns (signature-or-None, report)."""
    zs = stat_fn(n, seed)
    worst = max(zs.items(), key=lambda kv: abs(kv[1])) if zs else ("none", 0.0)
    rep = {"n": n, "max_abs_z": round(abs(worst[1]), 3), "argmax": worst[0], "suspicious": [], "confirm": None}
    exceed = {k: v for k, v in zs.items() if abs(v) > Z1}
    rep["suspicious"] = sorted(k for k, v in zs.items() if ZS < abs(v) <= Z1)
    if not exceed:
        return None, rep
    reps = []
    for r in range(3):
        reps.append(stat_fn(confirm_mult * n, seed * 7919 + 1000 + r))
    rep["confirm"] = {k: [round(rr.get(k, 0.0), 2) for rr in reps] for k in exceed}
    for k, v in sorted(exceed.items(), key=lambda kv: -abs(kv[1])):
        sign = math.copysign(1.0, v)
        if all(abs(rr.get(k, 0.0)) > Z2 and math.copysign(1.0, rr.get(k, 0.0)) == sign for rr in reps):
            return k, rep
    return None, rep
