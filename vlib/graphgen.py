"""Raw node-DAG specs with counting functions (C01, C15, C17).

A spec is a list of declarations in dependency order (JSON-able):
  {"kind": K, "name": str|"" , "inputs": [[ref, kw|None], ...], "coef": [c0, c1, ...], "shape": [] | [2], "value": int, "group": str|None}
kinds
  value      lsl.Value                      assignable
  svar       strong lsl.Var                 assignable (through Var.value or its value node)
  dvar       strong lsl.Var with Dist Normal(loc=<input 0 or const>, scale=2.0)   assignable; caching Dist node
  calc       lsl.Calc            cached     affine integer function of its inputs
  tcalc      lsl.TransientCalc   transient  same function
  tident     lsl.TransientIdentity of input 0
  wvar       weak lsl.Var wrapping a Calc   (VarValue proxy when used as an input)
  wdvar      weak lsl.Var wrapping a Calc, with a Dist Normal(loc=input 0, scale=2.0) on it
  igcalc     lsl.Calc fed through an lsl.InputGroup of its inputs
  scalc      lsl.Calc with _needs_seed=True (gets a `seed` keyword input from the model)
A ref to a var declaration means the Var object (liesel then wires var.var_value_node).

Functions are integer-affine maps on small-integer float32 arrays (exact), each wrapped to count calls per declaration.
"""
from __future__ import annotations

import numpy as np

from vlib.lz import jax, jnp, lsl, tfd

MODV = 1024
ASSIGNABLE = ("value", "svar", "dvar")
CACHING = ("calc", "wvar", "wdvar", "igcalc", "scalc", "unode", "pitvar")
WITH_DIST = ("dvar", "wdvar")
VAR_KINDS = ("svar", "dvar", "wvar", "wdvar", "pitvar")


def spec_strategy(min_nodes=4, max_nodes=14, allow_seed=True, allow_groups=False, allow_unnamed=True, allow_own_key=False):
    from hypothesis import strategies as st

    @st.composite
    def g(draw):
        n = draw(st.integers(min_nodes, max_nodes))
        decls = []
        n_src = draw(st.integers(1, 3))
        kinds_pool = ["calc", "calc", "calc", "tcalc", "tcalc", "tident", "wvar", "wdvar", "igcalc", "value", "svar", "dvar", "dvar", "unode", "pitvar"]
        if allow_seed:
            kinds_pool.append("scalc")
        for i in range(n):
            if i < n_src:
                kind = draw(st.sampled_from(["value", "svar", "dvar"]))
            else:
                kind = draw(st.sampled_from(kinds_pool))
            shape = draw(st.sampled_from([[], [], [2]]))
            fan = 0 if kind in ("value", "svar") else (1 if kind in ("tident",) else draw(st.integers(1, 3)))
            if kind == "dvar":
                fan = draw(st.integers(0, 1))
            fan = min(fan, i)
            if kind in ("calc", "tcalc", "wvar", "wdvar", "igcalc", "scalc", "tident", "unode") and i == 0:
                kind, fan = "value", 0
            if kind == "pitvar":
                # probability integral transform of an earlier distributed variable (liesel's PIT helper: a caching node that is neither Calc nor Dist)
                cands = [j for j, dj in enumerate(decls) if dj["kind"] in WITH_DIST]
                if not cands:
                    kind, fan = ("calc", min(1, i)) if i > 0 else ("value", 0)
                else:
                    fan = 0
            ins = []
            for j in range(fan):
                # prefer recent nodes so that chains (cached -> transient -> cached) appear
                ref = draw(st.one_of(st.integers(max(0, i - 3), i - 1), st.integers(0, i - 1)))
                kw = draw(st.sampled_from([None, None, f"k{j}"]))
                ins.append([ref, kw])
            if kind == "pitvar":
                ins = [[draw(st.sampled_from(cands)), None]]
            name = f"x{i}" if (not allow_unnamed or draw(st.integers(0, 5)) > 0) else ""
            if kind in VAR_KINDS and not name:
                name = f"x{i}"
            d = {"kind": kind, "name": name, "inputs": ins, "coef": [draw(st.integers(0, 9))] + [draw(st.integers(1, 3)) for _ in ins],
                 "shape": shape, "value": draw(st.integers(0, 30)), "group": None, "custom": kind in ("wvar", "wdvar") and draw(st.integers(0, 2)) == 0}
            if kind in WITH_DIST and draw(st.integers(0, 2)) == 0:
                d["tdist"] = True        # lsl.TransientDist: the log-prob is not cached but evaluated on every read
            if allow_own_key and kind == "scalc" and draw(st.booleans()):
                d["own_key"] = True      # the seeded node brings its own `seed` input (the model then injects none)
            if allow_groups and draw(st.integers(0, 4)) == 0:
                d["group"] = draw(st.sampled_from(["g1", "g2"]))
            decls.append(d)
        return decls

    return g()


def _val(d, v=None):
    v = d["value"] if v is None else v
    shp = tuple(d["shape"])
    return np.asarray(np.full(shp, float(v)) + (np.arange(int(np.prod(shp))).reshape(shp) if shp else 0.0), dtype=np.float32)


def affine(coef):
    def f(*args, **kwargs):
        vals = list(args) + [kwargs[k] for k in sorted(kwargs) if k != "seed"]
        tot = jnp.float32(coef[0])
        for c, a in zip(coef[1:], vals):
            tot = tot + c * jnp.asarray(a, dtype=jnp.float32)
        if "seed" in kwargs:
            tot = tot + jnp.asarray(jax.random.key_data(kwargs["seed"]) if jnp.issubdtype(jnp.asarray(kwargs["seed"]).dtype, jax.dtypes.prng_key)
                                    else kwargs["seed"]).astype(jnp.uint32)[-1].astype(jnp.float32) % 7
        return jnp.mod(tot, MODV)

    return f


def loc_ref(d):
    """declaration index feeding `loc` of a dvar / wdvar distribution (first positional input, else first keyword input)"""
    if not d["inputs"]:
        return None
    pos = [r for r, kw in d["inputs"] if kw is None]
    return pos[0] if pos else d["inputs"][0][0]


class UserNode(lsl.Node):
    """a user-defined caching node that derives from Node directly (like liesel's own PITCalc)"""

    def __init__(self, fn, *inputs, _name="", **kwinputs):
        super().__init__(*inputs, _name=_name, **kwinputs)
        self._fn = fn

    def update(self):
        args = [i.value for i in self.inputs]
        kwargs = {k: v.value for k, v in self.kwinputs.items()}
        self._value = self._fn(*args, **kwargs)
        self._outdated = False
        return self


class Built:
    """liesel objects of a spec + call counters + the naive (uncached) evaluator."""

    def __init__(self, decls):
        self.decls = decls
        self.objs = []          # Var or Node per declaration
        self.counts = {}        # decl index -> calls of its caching function ("calc" part) ; ("d", i) -> Dist evaluations
        self.raw = []           # raw (uncounted) function per declaration
        self.groups = {}
        for i, d in enumerate(decls):
            self.objs.append(self._make(i, d))
        members = {}
        for i, d in enumerate(decls):
            if d.get("group"):
                members.setdefault(d["group"], {})[f"m{i}"] = self.objs[i]
        for gname, mem in members.items():
            self.groups[gname] = lsl.Group(gname, **mem)

    # ---- construction
    def _counted(self, key, fn):
        self.counts[key] = 0

        def wrapped(*a, **k):
            self.counts[key] += 1
            return fn(*a, **k)

        return wrapped

    def _args(self, d):
        pos = [self.objs[r] for r, kw in d["inputs"] if kw is None]
        kws = {kw: self.objs[r] for r, kw in d["inputs"] if kw is not None}
        return pos, kws

    def _coef_for(self, d):
        # affine() applies coefficients to positional args first, then keyword args in sorted order
        pos = [c for c, (r, kw) in zip(d["coef"][1:], d["inputs"]) if kw is None]
        kws = [c for kw, c in sorted(((kw, c) for c, (r, kw) in zip(d["coef"][1:], d["inputs"]) if kw is not None))]
        return [d["coef"][0]] + pos + kws

    def _dist(self, i, loc):
        """Normal(loc, 2.0) with positional, keyword or mixed distribution inputs (varies with the declaration index)"""
        if self.decls[i].get("tdist"):
            cls, mk = tfd.Normal, lsl.TransientDist        # (not counted: a transient node is evaluated on every read)
        else:
            cls, mk = self._counted(("d", i), tfd.Normal), lsl.Dist
        if i % 3 == 0:
            return mk(cls, loc, 2.0)
        if i % 3 == 1:
            return mk(cls, loc, scale=2.0)
        return mk(cls, loc=loc, scale=2.0)

    def _make(self, i, d):
        k = d["kind"]
        fn = affine(self._coef_for(d))
        self.raw.append(fn)
        pos, kws = self._args(d)
        if k == "value":
            return lsl.Value(_val(d), _name=d["name"])
        if k == "svar":
            return lsl.Var(_val(d), name=d["name"])
        if k == "dvar":
            loc = (pos + list(kws.values()))[0] if (pos or kws) else 1.0
            dist = self._dist(i, loc)
            return lsl.Var(_val(d), dist, name=d["name"])
        if k == "calc":
            return lsl.Calc(self._counted(i, fn), *pos, _name=d["name"], **kws)
        if k == "scalc":
            if d.get("own_key"):
                kws = dict(kws, seed=lsl.Value(jax.random.PRNGKey(100 + i), _name=f"user_key_{i}"))
            return lsl.Calc(self._counted(i, fn), *pos, _name=d["name"], _needs_seed=True, **kws)
        if k == "unode":
            return UserNode(self._counted(i, fn), *pos, _name=d["name"], **kws)
        if k == "pitvar":
            self.counts[i] = 0      # (PITCalc has no user function to count; listed so that the bookkeeping stays uniform)
            return lsl.PIT(self.objs[d["inputs"][0][0]], name=d["name"])
        if k == "tcalc":
            return lsl.TransientCalc(fn, *pos, _name=d["name"], **kws)
        if k == "tident":
            return lsl.TransientIdentity((pos + list(kws.values()))[0], _name=d["name"])
        if k == "igcalc":
            ig = lsl.InputGroup(*pos, **kws)

            def gfn(group):
                return fn(*group.args, **group.kwargs)

            self.raw[i] = fn
            return lsl.Calc(self._counted(i, gfn), ig, _name=d["name"])
        custom = bool(d.get("custom"))      # user-chosen names for the nodes inside a variable (instead of the derived <var>_value / <var>_log_prob)
        if k == "wvar":
            return lsl.Var(lsl.Calc(self._counted(i, fn), *pos, _name=f"inner_calc_{i}" if custom else "", **kws), name=d["name"])
        if k == "wdvar":
            loc = (pos + list(kws.values()))[0]
            dist = self._dist(i, loc)
            if custom:
                dist.name = f"inner_lp_{i}"
            return lsl.Var(lsl.Calc(self._counted(i, fn), *pos, _name=f"inner_calc_{i}" if custom else "", **kws), dist, name=d["name"])
        raise ValueError(k)

    def build(self, copy=False, entry="builder"):
        if entry == "copy_late" and not self.groups:
            # values are assigned to the source nodes AFTER the dependent nodes were constructed and outside of any model (nothing can be
            # flagged there); then the builder makes a model of deep copies
            gb = lsl.GraphBuilder()
            gb.add(*self.objs)
            for i in self.sources():
                self.value_node(i).value = _val(self.decls[i], self.decls[i]["value"] + 7)
            self.model = gb.build_model(copy=True)
            self.copied = True
            return self.model
        if entry == "model" and not self.groups and not copy:
            self.model = lsl.Model(list(self.objs))        # documented shortcut: Model(...) grows the graph through a temporary builder
            return self.model
        gb = lsl.GraphBuilder()
        gb.add(*self.objs)
        if self.groups:
            gb.add_groups(*self.groups.values())
        self.model = gb.build_model(copy=copy)
        return self.model

    def reset_counts(self):
        for k in self.counts:
            self.counts[k] = 0

    # ---- access
    def value_node(self, i, model=None):
        o = self.objs[i]
        n = o.value_node if isinstance(o, lsl.Var) else o
        if getattr(self, "copied", False) and (model is not None or getattr(self, "model", None) is not None):
            return (model if model is not None else self.model).nodes[n.name]       # the model holds deep copies of the declared objects
        if model is not None and model is not getattr(self, "model", None):
            return model.nodes[n.name]
        return n

    def dist_node(self, i):
        o = self.objs[i]
        return o.dist_node if isinstance(o, lsl.Var) else None

    def sources(self):
        return [i for i, d in enumerate(self.decls) if d["kind"] in ASSIGNABLE]

    def ancestors(self, i):
        """declaration indices of assignable sources that node i's cached value depends on (+ 'seed:i' for seeded calcs)."""
        if self.decls[i]["kind"] == "pitvar":
            return self.pit_ancestors(i)       # (also when the PIT variable is the root of the query, e.g. as `loc` of another distribution)
        seen, out, stack = set(), set(), [r for r, _ in self.decls[i]["inputs"]]
        if self.decls[i]["kind"] == "scalc":
            out.add(f"seed:{i}")
        while stack:
            j = stack.pop()
            if j in seen:
                continue
            seen.add(j)
            dj = self.decls[j]
            if dj["kind"] in ASSIGNABLE:
                out.add(j)
                continue
            if dj["kind"] == "scalc":
                out.add(f"seed:{j}")
            if dj["kind"] == "pitvar":
                out |= self.pit_ancestors(j)       # a PIT value depends on the variable AND on the inputs of its distribution
                continue
            stack += [r for r, _ in dj["inputs"]]
        return out

    def pit_ancestors(self, i):
        return self.dist_ancestors(self.decls[i]["inputs"][0][0])

    def dist_ancestors(self, i):
        d = self.decls[i]
        out = set()
        if d["kind"] == "dvar":
            out.add(i)
            if d["inputs"]:
                r = loc_ref(d)
                out |= ({r} if self.decls[r]["kind"] in ASSIGNABLE else self.ancestors(r))
                if self.decls[r]["kind"] == "scalc":
                    out.add(f"seed:{r}")
        else:  # wdvar: at = own calc; loc = input 0
            out |= self.ancestors(i)
        return out

    # ---- naive evaluator: recompute decl i from the *current* values of the assignable sources
    def naive(self, i, model, memo=None):
        memo = {} if memo is None else memo
        if i in memo:
            return memo[i]
        d = self.decls[i]
        if d["kind"] in ASSIGNABLE:
            out = self.value_node(i, model).value
        elif d["kind"] == "tident":
            out = self.naive(d["inputs"][0][0], model, memo)
        elif d["kind"] == "pitvar":
            j = d["inputs"][0][0]
            dj = self.decls[j]
            loc = self.naive(loc_ref(dj), model, memo) if dj["inputs"] else 1.0
            out = tfd.Normal(loc=loc, scale=2.0).cdf(self.naive(j, model, memo))
        else:
            pos = [self.naive(r, model, memo) for r, kw in d["inputs"] if kw is None]
            kws = {kw: self.naive(r, model, memo) for r, kw in d["inputs"] if kw is not None}
            if d["kind"] == "scalc":
                n = self.value_node(i, model)
                kws["seed"] = n.kwinputs["seed"].value
            out = self.raw[i](*pos, **kws)
        memo[i] = out
        return out

    def naive_logprob(self, i, model, memo=None):
        d = self.decls[i]
        at = self.naive(i, model, memo)
        loc = self.naive(loc_ref(d), model, memo) if d["inputs"] else 1.0
        return tfd.Normal(loc=loc, scale=2.0).log_prob(at)
