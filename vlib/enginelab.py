"""Engine lab: schedule generators, probe kernels and the pure-Python reference of the engine life-cycle / chains.

A *spec* (JSON-able) describes one engine run:
  epochs   [[type, duration, thinning], ...]   valid by construction, first = [0, 1, 1]
  chains   1..4
  chunk    any divisor of gcd(durations[1:])
  kernels  [{"keys": [...], "a": int, "c": int, "hist": bool, "errs": {...}|None}]  over disjoint key sets
  shapes   {key: shape}                        shapes of the state entries
  tracked  [keys]                              position keys handed to the engine (never empty)
  store_ks bool
  seed     int
  script   list of "all" | "next" | ["append", k]   (interleaving of sample_all_epochs / sample_next_epoch / append_epoch)
  upfront  number of epochs configured in the constructor (>= 1), the rest is appended by the script

ProbeKernel's deterministic transition (integer-valued float32, exact):
  x_k <- (a * x_k + S + time + c + arange(size)) mod 1009      with S = sum of all *other* state entries
so kernel order, state threading, time and thinning are all observable in the stored values.
"""
from __future__ import annotations

import math
from dataclasses import dataclass, field
from typing import ClassVar

import numpy as np

from vlib.lz import gs, jax, jnp

from liesel.goose.epoch import EpochConfig, EpochState, EpochType
from liesel.goose.kernel import DefaultTransitionInfo, DefaultTuningInfo, TransitionMixin, TransitionOutcome, TuningMixin, TuningOutcome, WarmupOutcome
from liesel.goose.kernel_sequence import KernelSequence
from liesel.goose.pytree import register_dataclass_as_pytree

MOD = 1009
POOL = ["b", "a", "d", "c"]  # deliberately not alphabetical
KS_FIELDS = ["seq", "n_start", "n_end", "n_tune", "n_warm", "n_trans", "n_adapt", "n_slow",
             "last_start_seq", "last_end_seq", "last_tune_seq", "last_warm_seq",
             "start_nth", "start_time", "start_tie", "start_type",
             "end_nth", "end_time", "end_tie",
             "tune_nth", "tune_time", "tune_tie", "tune_hist_len", "tune_hist_digest", "warm_th_len",
             "start_dur", "start_thin", "end_dur", "end_thin", "end_type", "tune_dur", "tune_thin", "tune_type"]
KEY_FIELDS = ["k_init", "k_start", "k_end", "k_tune", "k_warm"]


@register_dataclass_as_pytree
@dataclass
class ProbeInfo(DefaultTransitionInfo):
    error_code: int
    acceptance_prob: float
    position_moved: int
    time: int = 0
    time_in_epoch: int = 0
    etype: int = 0
    nth: int = 0
    duration: int = 0
    thinning: int = 0
    adaptive: int = 0
    key: jnp.ndarray | None = None
    ks: dict | None = None
    pre: jnp.ndarray | None = None   # digest of the incoming model state (all pool keys)
    post: jnp.ndarray | None = None  # digest of the outgoing model state

    def minimize(self) -> DefaultTransitionInfo:
        return DefaultTransitionInfo(self.error_code, self.acceptance_prob, self.position_moved)


@register_dataclass_as_pytree
@dataclass
class ProbeInfoD(DefaultTransitionInfo):
    """the same record, but `minimize` is the one inherited from the library's DefaultTransitionInfo"""

    error_code: int
    acceptance_prob: float
    position_moved: int
    time: int = 0
    time_in_epoch: int = 0
    etype: int = 0
    nth: int = 0
    duration: int = 0
    thinning: int = 0
    adaptive: int = 0
    key: jnp.ndarray | None = None
    ks: dict | None = None
    pre: jnp.ndarray | None = None
    post: jnp.ndarray | None = None


def _key_words(key):
    return jax.random.key_data(key).astype(jnp.uint32) if jnp.issubdtype(key.dtype, jax.dtypes.prng_key) else jnp.asarray(key).astype(jnp.uint32)


def _digest_state(model, state, keys):
    pos = model.extract_position(keys, state)
    tot = jnp.int32(0)
    for i, k in enumerate(keys):
        v = jnp.asarray(pos[k]).astype(jnp.int32).reshape(-1)
        w = jnp.arange(1, v.size + 1, dtype=jnp.int32) + 7 * i
        tot = tot + jnp.sum(v * w)
    return tot


class KS:
    """dict-like view on the packed kernel state {"v": int32[len(KS_FIELDS)], "k": uint32[len(KEY_FIELDS), 2]}."""

    def __init__(self, raw):
        self.raw = {"v": raw["v"], "k": raw["k"]}

    def __getitem__(self, f):
        if f in KEY_FIELDS:
            return self.raw["k"][KEY_FIELDS.index(f)]
        return self.raw["v"][KS_FIELDS.index(f)]

    def __setitem__(self, f, val):
        if f in KEY_FIELDS:
            self.raw["k"] = self.raw["k"].at[KEY_FIELDS.index(f)].set(val)
        else:
            self.raw["v"] = self.raw["v"].at[KS_FIELDS.index(f)].set(jnp.asarray(val).astype(jnp.int32))


def unpack_ks(raw):
    """numpy view: {field: array[...]} from stored packed kernel states / infos (leading axes arbitrary)."""
    v, k = np.asarray(raw["v"]), np.asarray(raw["k"])
    out = {f: v[..., i] for i, f in enumerate(KS_FIELDS)}
    out.update({f: k[..., i, :] for i, f in enumerate(KEY_FIELDS)})
    return out


class ProbeKernel(TransitionMixin, TuningMixin):
    """Deterministic, fully self-reporting kernel (test side; implements the Kernel protocol)."""

    error_book: ClassVar[dict[int, str]] = {0: "no errors", 1: "probe error one", 2: "probe error two", 7: "probe error seven",
                                            256: "probe error two hundred and fifty-six", 300: "probe error three hundred"}
    needs_history: ClassVar[bool] = False
    identifier: str = ""

    def __init__(self, position_keys, a=1, c=0, all_keys=(), err_table=None, log=None, ident=""):
        self._model = None
        self.position_keys = tuple(position_keys)
        self.a, self.c = int(a), int(c)
        self.all_keys = tuple(all_keys)
        self.err_table = None if err_table is None else jnp.asarray(np.asarray(err_table, dtype=np.int32))
        self.log = log if log is not None else []
        self.identifier = ident

    # --- model plumbing
    @property
    def model(self):
        if self._model is None:
            raise RuntimeError("Model interface not set")
        return self._model

    def set_model(self, model):
        self._model = model

    def has_model(self):
        return self._model is not None

    # --- state: packed into two arrays (few pytree leaves keep XLA compile times low); see KS / unpack_ks
    def init_state(self, prng_key, model_state):
        ks = KS({"v": jnp.zeros(len(KS_FIELDS), dtype=jnp.int32), "k": jnp.zeros((len(KEY_FIELDS), 2), dtype=jnp.uint32)})
        for f in ("tune_hist_len", "warm_th_len"):
            ks[f] = jnp.int32(-2)
        ks["k_init"] = _key_words(prng_key)
        return ks.raw

    def _log(self, what, epoch):
        try:
            self.log.append((what, self.identifier, int(epoch.nth_epoch), int(epoch.config.type), int(epoch.time),
                             int(epoch.time_in_epoch), int(epoch.config.duration)) if epoch is not None else (what, self.identifier))
        except Exception:  # noqa: BLE001  (traced epoch: a refactoring jitted the life-cycle call; the counters still observe it)
            self.log.append((what, self.identifier, "traced"))

    def start_epoch(self, prng_key, kernel_state, model_state, epoch):
        self._log("start", epoch)
        ks = KS(kernel_state)
        ks["seq"] = ks["seq"] + 1
        ks["n_start"] = ks["n_start"] + 1
        ks["last_start_seq"] = ks["seq"]
        ks["start_nth"] = jnp.int32(epoch.nth_epoch)
        ks["start_time"] = jnp.int32(epoch.time)
        ks["start_tie"] = jnp.int32(epoch.time_in_epoch)
        ks["start_type"] = jnp.int32(epoch.config.type)
        ks["start_dur"] = jnp.int32(epoch.config.duration)       # the epoch's own configuration, not that of an earlier epoch of the same type
        ks["start_thin"] = jnp.int32(epoch.config.thinning)
        ks["k_start"] = _key_words(prng_key)
        return ks.raw

    def end_epoch(self, prng_key, kernel_state, model_state, epoch):
        self._log("end", epoch)
        ks = KS(kernel_state)
        ks["seq"] = ks["seq"] + 1
        ks["n_end"] = ks["n_end"] + 1
        ks["last_end_seq"] = ks["seq"]
        ks["end_nth"] = jnp.int32(epoch.nth_epoch)
        ks["end_time"] = jnp.int32(epoch.time)
        ks["end_tie"] = jnp.int32(epoch.time_in_epoch)
        ks["end_dur"] = jnp.int32(epoch.config.duration)
        ks["end_thin"] = jnp.int32(epoch.config.thinning)
        ks["end_type"] = jnp.int32(epoch.config.type)
        ks["k_end"] = _key_words(prng_key)
        return ks.raw

    def _tune(self, slow, prng_key, kernel_state, model_state, epoch, history):
        ks = KS(kernel_state)
        ks["seq"] = ks["seq"] + 1
        ks["n_tune"] = ks["n_tune"] + 1
        ks["n_slow"] = ks["n_slow"] + slow
        ks["last_tune_seq"] = ks["seq"]
        ks["tune_nth"] = jnp.int32(epoch.nth_epoch)
        ks["tune_time"] = jnp.int32(epoch.time)
        ks["tune_tie"] = jnp.int32(epoch.time_in_epoch)
        ks["tune_dur"] = jnp.int32(epoch.config.duration)
        ks["tune_thin"] = jnp.int32(epoch.config.thinning)
        ks["tune_type"] = jnp.int32(epoch.config.type)
        ks["k_tune"] = _key_words(prng_key)
        if history is None:
            ks["tune_hist_len"] = jnp.int32(-1)
            ks["tune_hist_digest"] = jnp.int32(0)
        else:
            keys = sorted(history.keys())
            n = jnp.asarray(history[keys[0]]).shape[0]
            dig = jnp.int32(0)
            for i, k in enumerate(keys):
                h = jnp.asarray(history[k]).astype(jnp.int32).reshape(n, -1)
                w = jnp.arange(1, n + 1, dtype=jnp.int32)[:, None] * (jnp.arange(1, h.shape[1] + 1, dtype=jnp.int32)[None, :] + 3 * i)
                dig = dig + jnp.sum(h * w)
            ks["tune_hist_len"] = jnp.int32(n)
            ks["tune_hist_digest"] = dig
        return TuningOutcome(DefaultTuningInfo(error_code=0, time=epoch.time), ks.raw)

    def tune(self, prng_key, kernel_state, model_state, epoch, history):
        self._log("tune", epoch)
        return super().tune(prng_key, kernel_state, model_state, epoch, history)

    def _tune_fast(self, prng_key, kernel_state, model_state, epoch, history):
        return self._tune(0, prng_key, kernel_state, model_state, epoch, history)

    def _tune_slow(self, prng_key, kernel_state, model_state, epoch, history):
        return self._tune(1, prng_key, kernel_state, model_state, epoch, history)

    def end_warmup(self, prng_key, kernel_state, model_state, tuning_history):
        self._log("warm", None)
        ks = KS(kernel_state)
        ks["seq"] = ks["seq"] + 1
        ks["n_warm"] = ks["n_warm"] + 1
        ks["last_warm_seq"] = ks["seq"]
        ks["k_warm"] = _key_words(prng_key)
        if tuning_history is None:
            ks["warm_th_len"] = jnp.int32(-1)
        else:
            ks["warm_th_len"] = jnp.int32(jnp.asarray(tuning_history.time).shape[0])
        return WarmupOutcome(error_code=0, kernel_state=ks.raw)

    # --- transitions
    def _step(self, adaptive, prng_key, kernel_state, model_state, epoch):
        ks = KS(kernel_state)
        ks["seq"] = ks["seq"] + 1
        ks["n_trans"] = ks["n_trans"] + 1
        ks["n_adapt"] = ks["n_adapt"] + adaptive
        pre = _digest_state(self.model, model_state, self.all_keys)
        own = self.model.extract_position(self.position_keys, model_state)
        others = [k for k in self.all_keys if k not in self.position_keys]
        S = jnp.float32(0)
        if others:
            op = self.model.extract_position(others, model_state)
            for k in others:
                S = S + jnp.sum(op[k])
        t = jnp.asarray(epoch.time).astype(jnp.float32)
        new = {}
        for k in self.position_keys:
            x = jnp.asarray(own[k])
            off = jnp.arange(x.size, dtype=jnp.float32).reshape(x.shape)
            new[k] = jnp.mod(self.a * x + S + t + self.c + off, MOD).astype(x.dtype)
        out_state = self.model.update_state(new, model_state)
        post = _digest_state(self.model, out_state, self.all_keys)
        if self.err_table is not None:
            cid = jnp.asarray(self.model.extract_position(["cid"], model_state)["cid"]).astype(jnp.int32)
            code = self.err_table[cid, jnp.clip(jnp.asarray(epoch.time).astype(jnp.int32), 0, self.err_table.shape[1] - 1)]
        else:
            code = jnp.int32(0)
        info = (ProbeInfoD if getattr(self, "inherit_minimize", False) else ProbeInfo)(
            error_code=code, acceptance_prob=jnp.float32(1.0), position_moved=jnp.int32(1),
            time=jnp.int32(epoch.time), time_in_epoch=jnp.int32(epoch.time_in_epoch), etype=jnp.int32(epoch.config.type),
            nth=jnp.int32(epoch.nth_epoch), duration=jnp.int32(epoch.config.duration), thinning=jnp.int32(epoch.config.thinning),
            adaptive=jnp.int32(adaptive), key=_key_words(prng_key), ks=dict(ks.raw), pre=pre, post=post,
        )
        return TransitionOutcome(info, ks.raw, out_state)

    def _standard_transition(self, prng_key, kernel_state, model_state, epoch):
        return self._step(0, prng_key, kernel_state, model_state, epoch)

    def _adaptive_transition(self, prng_key, kernel_state, model_state, epoch):
        return self._step(1, prng_key, kernel_state, model_state, epoch)


class ProbeKernelH(ProbeKernel):
    needs_history: ClassVar[bool] = True
    error_book: ClassVar[dict[int, str]] = {0: "no errors", 1: "probe-H error one", 2: "probe-H error two", 7: "probe-H error seven",
                                            256: "probe-H error two hundred and fifty-six", 300: "probe-H error three hundred"}


# =====================================================================================
# spec generation
# =====================================================================================
def divisors(n):
    return [d for d in range(1, n + 1) if n % d == 0]


def schedule_strategy(max_dur=12, max_epochs=5, min_posterior=1, chains=(1, 3), allow_thinning=True, max_kernels=3,
                      err_tables=False, want_script=True, min_kernels=1):
    from hypothesis import strategies as st

    @st.composite
    def spec(draw):
        g = draw(st.sampled_from([1, 1, 2, 3, 4]))
        n_warm = draw(st.integers(0, max_epochs - 1))
        n_post = draw(st.integers(min_posterior, max(min_posterior, min(3, max_epochs - n_warm))))
        epochs = [[0, 1, 1]]

        def mk(t, posterior):
            m = draw(st.integers(1, max(1, max_dur // g)))
            d = m * g
            if not allow_thinning:
                k = 1
            elif posterior:
                k = draw(st.sampled_from(divisors(d)))
            else:
                k = draw(st.integers(1, d))
            return [t, d, k]

        for _ in range(n_warm):
            epochs.append(mk(draw(st.sampled_from([1, 2, 2, 3])), False))
        for _ in range(n_post):
            epochs.append(mk(4, True))
        durs = [e[1] for e in epochs[1:]]
        chunk = draw(st.sampled_from(divisors(math.gcd(*durs))))
        nk = draw(st.integers(min_kernels, max_kernels))
        keys = draw(st.permutations(POOL))[: draw(st.integers(nk, len(POOL)))]
        # split keys over kernels (each >= 1); leftovers stay kernel-less state entries
        cuts = sorted(draw(st.lists(st.integers(1, len(keys) - 1), min_size=nk - 1, max_size=nk - 1, unique=True))) if nk > 1 and len(keys) > 1 else []
        groups, prev = [], 0
        for c in cuts + [len(keys)]:
            if c > prev:
                groups.append(list(keys[prev:c]))
            prev = c
        shapes = {k: draw(st.sampled_from([[], [], [3], [2, 2]])) for k in POOL}
        kernels = [{"keys": g_, "a": draw(st.integers(1, 5)), "c": draw(st.integers(0, 9)), "hist": draw(st.booleans()), "errs": None}
                   for g_ in groups]
        kkeys = [k for kk in kernels for k in kk["keys"]]
        extra = [k for k in POOL if k not in kkeys]
        incl = draw(st.lists(st.sampled_from(extra), unique=True, max_size=len(extra))) if extra else []
        # excluded keys override included ones; at least one kernel key always stays tracked
        pool = kkeys[1:] + incl
        excl = draw(st.lists(st.sampled_from(pool), unique=True, max_size=len(pool))) if pool else []
        n_chains = draw(st.integers(*chains))
        sp = {"epochs": epochs, "chains": n_chains, "chunk": chunk, "kernels": kernels, "shapes": shapes,
              "included": incl, "excluded": excl, "store_ks": draw(st.booleans()), "seed": draw(st.integers(0, 2**20)),
              "init": {k: draw(st.integers(0, 50)) for k in POOL}}
        if want_script:
            upfront = draw(st.integers(1, len(epochs)))
            sp["upfront"] = upfront
            sp["script_seed"] = draw(st.lists(st.integers(0, 2), min_size=2 * len(epochs) + 2, max_size=2 * len(epochs) + 2))
        if err_tables:
            T = 1 + sum(durs)
            for i, kk in enumerate(kernels):
                modes = (["sparse", "one-chain", "sparse", "one-chain", "dense", "warm", "post", "none"] if i == 0
                         else ["dense", "sparse", "one-chain", "warm", "post"] + ["none"] * 5)
                mode = draw(st.sampled_from(modes))
                kk["errs"] = {"mode": mode, "seed": draw(st.integers(0, 2**20)), "T": T}
        return sp

    return spec()


def tracked_keys(spec):
    kkeys = [k for kk in spec["kernels"] for k in kk["keys"]]
    keys = kkeys + list(spec.get("included", []))
    return [k for k in keys if k not in spec.get("excluded", [])]


def err_table(spec, kk):
    """(chains, T) int table of error codes for one kernel, derived deterministically from the spec."""
    e = kk.get("errs")
    T = 1 + sum(x[1] for x in spec["epochs"][1:])
    tab = np.zeros((spec["chains"], T), dtype=np.int32)
    if not e or e["mode"] == "none":
        return tab
    rng = np.random.default_rng([e["seed"], 19])
    codes = rng.choice([1, 2, 7, 256, 300] if e.get("big") else [1, 2, 7], size=tab.shape)
    dens = rng.random(tab.shape) < {"dense": 0.5, "sparse": 0.08}.get(e["mode"], 0.35)
    tab = np.where(dens, codes, 0).astype(np.int32)
    # phase masks
    t = 1
    post_mask = np.zeros(T, dtype=bool)
    for typ, d, _ in spec["epochs"][1:]:
        if typ == 4:
            post_mask[t:t + d] = True
        t += d
    if e["mode"] == "warm":
        tab[:, post_mask] = 0
    elif e["mode"] == "post":
        tab[:, ~post_mask] = 0
    elif e["mode"] == "one-chain":
        keep = int(rng.integers(0, spec["chains"]))
        for c in range(spec["chains"]):
            if c != keep:
                tab[c, :] = 0
    tab[:, 0] = 0
    return tab


def initial_states(spec, perturb=None):
    """Per-chain model states (leading chain axis). perturb = (chain, key, delta)."""
    C = spec["chains"]
    st = {"cid": jnp.arange(C, dtype=jnp.int32), "z": jnp.full((C,), 5.0, dtype=jnp.float32)}
    for k in POOL:
        shp = tuple(spec["shapes"][k])
        base = np.zeros((C,) + shp, dtype=np.float32) + spec["init"][k]
        base = base + np.arange(C, dtype=np.float32).reshape((C,) + (1,) * len(shp)) * 11
        if shp:
            base = base + np.arange(int(np.prod(shp)), dtype=np.float32).reshape(shp)
        if perturb and perturb[1] == k:
            base[perturb[0]] += perturb[2]
        st[k] = jnp.asarray(np.mod(base, MOD))
    return st


def make_model():
    return gs.DictInterface(lambda s: jnp.float32(0.0))


def kernel_ids(spec):
    """kernel identifiers: the builder's default kernel_00, kernel_01, ... unless the spec asks for user-chosen (non-alphabetical) ones"""
    n = len(spec["kernels"])
    if spec.get("ids"):
        return list(spec["ids"])[:n]
    return [f"kernel_{i:02d}" for i in range(n)]


def make_kernels(spec, log, with_errs=False):
    kernels = []
    for i, kk in enumerate(spec["kernels"]):
        cls = ProbeKernelH if kk["hist"] else ProbeKernel
        tab = err_table(spec, kk) if with_errs and kk.get("errs") else None
        kernels.append(cls(kk["keys"], kk["a"], kk["c"], all_keys=POOL, err_table=tab, log=log, ident=kernel_ids(spec)[i]))
        kernels[-1].inherit_minimize = spec.get("minimize") == "inherit"
    return kernels


def make_engine(spec, epochs=None, chunk=None, log=None, with_errs=False, perturb=None, seed=None):
    log = [] if log is None else log
    model = make_model()
    kernels = make_kernels(spec, log, with_errs)
    for k in kernels:
        k.set_model(model)
    eps = spec["epochs"] if epochs is None else epochs
    cfgs = [EpochConfig(EpochType(t), d, k, None) for t, d, k in eps]
    seeds = jax.random.split(jax.random.PRNGKey(spec["seed"] if seed is None else seed), spec["chains"])
    eng = gs.Engine(seeds=seeds, model_states=initial_states(spec, perturb), kernel_sequence=KernelSequence(kernels),
                    epoch_configs=cfgs, jitted_sample_duration=spec["chunk"] if chunk is None else chunk, model=model,
                    position_keys=tracked_keys(spec), store_kernel_states=spec.get("store_ks", False), show_progress=False,
                    minimize_transition_infos=bool(spec.get("minimize")))
    return eng, log, kernels


def script_for(spec):
    """Concrete interleaving: which epochs are configured up-front, and a list of actions."""
    n = len(spec["epochs"])
    up = spec.get("upfront", n)
    seeds = list(spec.get("script_seed", []))
    actions, configured, sampled = [], up, 0
    i = 0
    while sampled < n:
        s = seeds[i % len(seeds)] if seeds else 0
        i += 1
        if configured < n and (s == 0 or sampled == configured):
            actions.append(["append", configured])
            configured += 1
        elif s == 1 and sampled < configured:
            actions.append("next")
            sampled += 1
        elif sampled < configured:
            actions.append("all")
            sampled = configured
    return up, actions


def run_script(spec, **kw):
    up, actions = script_for(spec)
    eng, log, kernels = make_engine(spec, epochs=spec["epochs"][:up], **kw)
    for a in actions:
        if a == "next":
            eng.sample_next_epoch()
        elif a == "all":
            eng.sample_all_epochs()
        else:
            t, d, k = spec["epochs"][a[1]]
            eng.append_epoch(EpochConfig(EpochType(t), d, k, None))
    return eng, log, actions


def run_all(spec, **kw):
    eng, log, kernels = make_engine(spec, **kw)
    eng.sample_all_epochs()
    return eng, log


# =====================================================================================
# reference model (pure Python / numpy, integers)
# =====================================================================================
def reference(spec):
    """Exact expected behaviour: per chain full state trajectory, stored (thinned) chains, per-kernel call trace."""
    C = spec["chains"]
    init = {k: np.asarray(v) for k, v in initial_states(spec).items()}
    kernels = spec["kernels"]
    tracked = tracked_keys(spec)
    any_hist = any(kk["hist"] for kk in kernels)
    out = []
    for c in range(C):
        state = {k: init[k][c].astype(np.int64) for k in POOL}
        full = [{k: v.copy() for k, v in state.items()}]            # state after every iteration (index 0 = initial)
        stored = {k: [state[k].copy()] for k in tracked}             # thinned position chain
        stored_epoch = [0]                                           # epoch index of every stored entry
        trace = [{"seq": 0, "n_start": 0, "n_end": 0, "n_tune": 0, "n_warm": 0, "n_trans": 0, "n_adapt": 0, "n_slow": 0,
                  "last_start_seq": 0, "last_end_seq": 0, "last_tune_seq": 0, "last_warm_seq": 0,
                  "tune_hist_len": -2, "tune_hist_digest": 0, "warm_th_len": -2, "events": []} for _ in kernels]
        infos = [[] for _ in kernels]
        time = 1
        warm_done = False
        n_tunings = 0
        for ei, (typ, dur, thin) in enumerate(spec["epochs"]):
            if ei == 0:
                continue
            if typ == 4 and not warm_done:
                warm_done = True
                for ki, tr in enumerate(trace):
                    tr["seq"] += 1
                    tr["n_warm"] += 1
                    tr["last_warm_seq"] = tr["seq"]
                    tr["warm_th_len"] = n_tunings if n_tunings else -1
                    tr["events"].append(("warm", ei))
            for tr in trace:
                tr["seq"] += 1
                tr["n_start"] += 1
                tr["last_start_seq"] = tr["seq"]
                tr.update(start_nth=ei, start_time=time, start_tie=0, start_type=typ, start_dur=dur, start_thin=thin)
                tr["events"].append(("start", ei))
            epoch_hist = {k: [] for k in tracked}
            for j in range(dur):
                for ki, kk in enumerate(kernels):
                    tr = trace[ki]
                    tr["seq"] += 1
                    tr["n_trans"] += 1
                    adaptive = 1 if typ in (1, 2) else 0
                    tr["n_adapt"] += adaptive
                    pre = _np_digest(state)
                    S = sum(int(state[k].sum()) for k in POOL if k not in kk["keys"])
                    for k in kk["keys"]:
                        x = state[k]
                        off = np.arange(x.size).reshape(x.shape)
                        state[k] = np.mod(kk["a"] * x + S + time + kk["c"] + off, MOD)
                    infos[ki].append({"time": time, "time_in_epoch": j, "etype": typ, "nth": ei, "duration": dur, "thinning": thin,
                                      "adaptive": adaptive, "pre": pre, "post": _np_digest(state),
                                      "ks": {f: tr.get(f, 0) for f in KS_FIELDS}})
                time += 1
                full.append({k: v.copy() for k, v in state.items()})
                if (j + 1) % thin == 0:
                    for k in tracked:
                        stored[k].append(state[k].copy())
                        epoch_hist[k].append(state[k].copy())
                    stored_epoch.append(ei)
            for tr in trace:
                tr["seq"] += 1
                tr["n_end"] += 1
                tr["last_end_seq"] = tr["seq"]
                tr.update(end_nth=ei, end_time=time, end_tie=dur, end_dur=dur, end_thin=thin, end_type=typ)
                tr["events"].append(("end", ei))
            if typ in (1, 2):
                n_tunings += 1
                for tr in trace:
                    tr["seq"] += 1
                    tr["n_tune"] += 1
                    tr["n_slow"] += 1 if typ == 2 else 0
                    tr["last_tune_seq"] = tr["seq"]
                    tr.update(tune_nth=ei, tune_time=time, tune_tie=dur, tune_dur=dur, tune_thin=thin, tune_type=typ)
                    if any_hist:
                        keys = sorted(tracked)
                        n = len(epoch_hist[keys[0]])
                        dig = 0
                        for i, k in enumerate(keys):
                            h = np.stack(epoch_hist[k]).reshape(n, -1)
                            w = np.arange(1, n + 1)[:, None] * (np.arange(1, h.shape[1] + 1)[None, :] + 3 * i)
                            dig += int((h * w).sum())
                        tr["tune_hist_len"], tr["tune_hist_digest"] = n, _wrap32(dig)
                    else:
                        tr["tune_hist_len"], tr["tune_hist_digest"] = -1, 0
                    tr["events"].append(("tune", ei))
        out.append({"full": full, "stored": {k: np.stack(v) for k, v in stored.items()}, "stored_epoch": np.array(stored_epoch),
                    "infos": infos, "final": trace})
    return out


def _wrap32(x: int) -> int:
    x &= 0xFFFFFFFF
    return x - (1 << 32) if x >= (1 << 31) else x


def _np_digest(state):
    tot = 0
    for i, k in enumerate(POOL):
        v = state[k].reshape(-1)
        w = np.arange(1, v.size + 1) + 7 * i
        tot += int((v * w).sum())
    return _wrap32(tot)


def expected_log(spec):
    """Global (not per chain) order of life-cycle calls: (what, kernel, nth_epoch)."""
    out = []
    ids = kernel_ids(spec)
    warm_done = False
    for ei, (typ, dur, thin) in enumerate(spec["epochs"]):
        if ei == 0:
            continue
        if typ == 4 and not warm_done:
            warm_done = True
            out += [("warm", i) for i in ids]
        out += [("start", i, ei) for i in ids]
        out += [("end", i, ei) for i in ids]
        if typ in (1, 2):
            out += [("tune", i, ei) for i in ids]
    return out
