"""Silence liesel / jax / tfp chatter so that check output is just the report lines."""
import logging
import os
import warnings

warnings.filterwarnings("ignore")
os.environ.setdefault("TF_CPP_MIN_LOG_LEVEL", "3")
logging.getLogger("liesel").setLevel(logging.CRITICAL)
logging.getLogger("jax").setLevel(logging.ERROR)
logging.getLogger("absl").setLevel(logging.ERROR)
logging.getLogger("arviz").setLevel(logging.ERROR)


def quiet_liesel():
    for name in list(logging.root.manager.loggerDict):
        if name.startswith("liesel"):
            lg = logging.getLogger(name)
            lg.setLevel(logging.CRITICAL)
            lg.propagate = False
            for h in list(lg.handlers):
                lg.removeHandler(h)
            lg.addHandler(logging.NullHandler())
