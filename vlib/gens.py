"""Shared Hypothesis strategy helpers (imported lazily by the check modules)."""
import numpy as np
from hypothesis import strategies as st


def f32(lo: float, hi: float, **kw):
    """float32-representable floats in [lo, hi] (bounds rounded inwards to float32)."""
    lo32, hi32 = np.float32(lo), np.float32(hi)
    if float(lo32) < lo:
        lo32 = np.nextafter(lo32, np.float32(np.inf))
    if float(hi32) > hi:
        hi32 = np.nextafter(hi32, np.float32(-np.inf))
    kw.setdefault("allow_nan", False)
    kw.setdefault("allow_infinity", False)
    kw.setdefault("allow_subnormal", False)     # XLA on CPU flushes subnormals to zero, numpy does not: outside the comparable domain
    return st.floats(min_value=float(lo32), max_value=float(hi32), width=32, **kw)


def seeds():
    return st.integers(0, 2**30)
