"""Targets with analytic gradient / Hessian (C06) and jointly-sampleable target families (C04, C09).

A *flat target* is a log-density over a flat vector theta of dimension D, split into named keys in a generated listing order; the
flat layout is the one jax.flatten_util.ravel_pytree uses for a dict: keys in sorted order, each raveled row-major.
"""
from __future__ import annotations

import math

import numpy as np
from scipy import special as sp

from vlib.lz import gs, jax, jnp

BIG = 1.0e6


class FlatTarget:
    """kind in {gauss, poisson, logistic, quartic}; all closed forms in float64 numpy, the jnp version for the kernels."""

    def __init__(self, kind: str, D: int, seed: int, n_obs: int = 8):
        rng = np.random.default_rng([seed, 6])
        self.wide = kind == "gauss_wide"                   # a weakly curved Gaussian: parameters on a scale of 1000 (precision ~ 1e-6)
        kind = "gauss" if self.wide else kind
        self.kind, self.D = kind, D
        A = rng.normal(size=(D, D))
        self.P = A @ A.T / D + 0.5 * np.eye(D)            # precision (gauss / quartic)
        self.m = rng.normal(size=D) * 0.5
        if self.wide:
            self.P, self.m = self.P * 1e-6, self.m * 1e3
        self.X = rng.normal(size=(n_obs, D)) * 0.7
        self.tau2 = 4.0
        self.c4 = 0.05
        eta = self.X @ (rng.normal(size=D) * 0.5)
        if kind == "poisson":
            self.y = rng.poisson(np.exp(eta)).astype(np.float64)
        else:
            self.y = (rng.random(n_obs) < sp.expit(eta)).astype(np.float64)

    # ---- float64 closed forms
    def logp(self, t):
        t = np.asarray(t, dtype=np.float64)
        if self.kind == "gauss":
            d = t - self.m
            return -0.5 * d @ self.P @ d
        if self.kind == "quartic":
            return -0.5 * t @ self.P @ t - self.c4 * np.sum(t**4)
        eta = self.X @ t
        prior = -0.5 * t @ t / self.tau2
        if self.kind == "poisson":
            return float(np.sum(self.y * eta - np.exp(eta)) + prior)
        return float(np.sum(self.y * eta - np.logaddexp(0.0, eta)) + prior)

    def grad(self, t):
        t = np.asarray(t, dtype=np.float64)
        if self.kind == "gauss":
            return -self.P @ (t - self.m)
        if self.kind == "quartic":
            return -self.P @ t - 4 * self.c4 * t**3
        eta = self.X @ t
        mu = np.exp(eta) if self.kind == "poisson" else sp.expit(eta)
        return self.X.T @ (self.y - mu) - t / self.tau2

    def neg_hess(self, t):
        t = np.asarray(t, dtype=np.float64)
        if self.kind == "gauss":
            return self.P.copy()
        if self.kind == "quartic":
            return self.P + 12 * self.c4 * np.diag(t**2)
        eta = self.X @ t
        w = np.exp(eta) if self.kind == "poisson" else sp.expit(eta) * (1 - sp.expit(eta))
        return self.X.T @ (w[:, None] * self.X) + np.eye(self.D) / self.tau2

    def user_info(self, t):
        """a user-supplied information matrix that differs from the negative Hessian"""
        u = 1e-6 if self.wide else 1.0
        return self.neg_hess(t) + u * (0.5 * np.eye(self.D) + 0.1 * np.outer(np.ones(self.D), np.ones(self.D)))

    # ---- jnp version
    def logp_jnp(self, t):
        P, m, X, y = (jnp.asarray(a, dtype=t.dtype) for a in (self.P, self.m, self.X, self.y))
        if self.kind == "gauss":
            d = t - m
            return -0.5 * d @ P @ d
        if self.kind == "quartic":
            return -0.5 * t @ P @ t - self.c4 * jnp.sum(t**4)
        eta = X @ t
        prior = -0.5 * t @ t / self.tau2
        if self.kind == "poisson":
            return jnp.sum(y * eta - jnp.exp(eta)) + prior
        return jnp.sum(y * eta - jnp.logaddexp(0.0, eta)) + prior

    def user_info_jnp(self, t):
        P, X = jnp.asarray(self.P, dtype=t.dtype), jnp.asarray(self.X, dtype=t.dtype)
        if self.kind == "gauss":
            H = P
        elif self.kind == "quartic":
            H = P + 12 * self.c4 * jnp.diag(t**2)
        else:
            eta = X @ t
            w = jnp.exp(eta) if self.kind == "poisson" else jax.nn.sigmoid(eta) * (1 - jax.nn.sigmoid(eta))
            H = X.T @ (w[:, None] * X) + jnp.eye(self.D, dtype=t.dtype) / self.tau2
        u = 1e-6 if self.wide else 1.0
        return H + u * (0.5 * jnp.eye(self.D, dtype=t.dtype) + 0.1 * jnp.ones((self.D, self.D), dtype=t.dtype))


def split_layout(D, sizes, names):
    """keys (listing order `names`) with sizes; flat layout by sorted key name. returns {key: (slice in flat, shape)}"""
    lay, off = {}, 0
    size_of = dict(zip(names, sizes))
    for k in sorted(names):
        n = size_of[k]
        lay[k] = (slice(off, off + n), () if n == 1 and k.startswith("s") else (n,))
        off += n
    assert off == D
    return lay


def flat_of(state, layout, xp=jnp):
    return xp.concatenate([xp.reshape(state[k], (-1,)) for k in sorted(layout)])


def state_of(theta, layout, anchor=None, dtype=np.float32):
    st = {k: jnp.asarray(np.asarray(theta[sl], dtype=dtype).reshape(shp)) for k, (sl, shp) in layout.items()}
    st["anchor"] = jnp.asarray(np.asarray(theta if anchor is None else anchor, dtype=dtype))
    st["force"] = jnp.asarray(0.0, dtype=dtype)
    return st


def make_interface(target: FlatTarget, layout):
    """DictInterface whose log-density is the target plus force * BIG * 1[position != anchor] (zero gradient / Hessian everywhere)."""

    def lp(state):
        t = flat_of(state, layout)
        moved = jnp.any(t != state["anchor"])
        return target.logp_jnp(t) + state["force"] * jnp.where(moved, BIG, 0.0)

    return gs.DictInterface(lp)
