"""CLI:  python -m vlib.main <Cxx> [--tier quick|thorough] [--replay file] [--sub names] [--shards N] [--shard i/N --out f]"""
import argparse
import importlib
import os
import pkgutil
import sys
import traceback


def find_module(pid: str):
    import checks

    for m in pkgutil.iter_modules(checks.__path__):
        if m.name.lower().startswith(pid.lower() + "_") or m.name.lower() == pid.lower():
            return importlib.import_module(f"checks.{m.name}")
    raise SystemExit(f"no check module for {pid}")


def main(argv=None) -> int:
    ap = argparse.ArgumentParser()
    ap.add_argument("pid")
    ap.add_argument("--tier", default=os.environ.get("VERIF_TIER", "quick"), choices=["quick", "thorough"])
    ap.add_argument("--replay")
    ap.add_argument("--sub")
    ap.add_argument("--shards", type=int)
    ap.add_argument("--shard")
    ap.add_argument("--out")
    a = ap.parse_args(argv)
    try:
        seed = int(os.environ.get("VERIF_SEED", "1") or 1)
    except ValueError:
        seed = 1
    try:
        from vlib import quiet  # noqa: F401  (logging / warnings silenced)
        from vlib import runner

        mod = find_module(a.pid)
        if a.replay:
            return runner.replay_file(mod, a.replay)
        if a.shard:
            i, n = map(int, a.shard.split("/"))
            runner.run_shard(mod, a.tier, seed, i, n, a.sub, a.out)
            return 0
        return runner.main_run(mod, a.tier, seed, a.shards, a.sub)
    except SystemExit:
        raise
    except BaseException:  # noqa: BLE001
        traceback.print_exc()
        print("HARNESS-ERROR (see traceback)", file=sys.stderr)
        return 2


if __name__ == "__main__":
    sys.exit(main())
