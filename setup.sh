#!/bin/bash
# MANIFEST.setup_cmd — offline; verifies (and if necessary installs from the local wheelhouse) what the checks import.
set -u
cd "$(dirname "$0")"
PY=/venv/bin/python
export PIP_NO_INDEX=1
need=""
for m in hypothesis jsonschema; do
  $PY -c "import $m" 2>/dev/null || need="$need $m"
done
if [ -n "$need" ]; then
  /venv/bin/pip install --no-index --find-links /opt/veriftools/wheels $need || { echo "setup: cannot install$need" >&2; exit 1; }
fi
# optional tools for the thorough tier (contract search / coverage-guided fuzzing); failure only degrades thorough runs
mkdir -p .deps
for pkg in crosshair-tool atheris; do
  d=".deps/${pkg%%-tool}"
  if [ ! -d "$d" ] || [ -z "$(ls -A "$d" 2>/dev/null)" ]; then
    /venv/bin/pip install -q --no-index --find-links /opt/veriftools/wheels --target "$d" "$pkg" >/dev/null 2>&1 \
      || echo "setup: optional $pkg not installed (thorough tier degrades to Hypothesis only)" >&2
  fi
done
$PY -c "import liesel, hypothesis, jsonschema, jax; print('setup ok: liesel', liesel.__file__, 'hypothesis', hypothesis.__version__)" 2>/dev/null || { echo "setup: import check failed" >&2; exit 1; }
mkdir -p evidence replays .work
exit 0
