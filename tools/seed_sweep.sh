#!/bin/bash
# tools/seed_sweep.sh "<seeds>" [ids...] — every check at several VERIF_SEED values on /repo; a check must stay silent (exit 0)
cd "$(dirname "$0")/.."
SEEDS=$1; shift
IDS=${@:-$(python3 -c "import json;print(' '.join(c['property_id'] for c in json.load(open('MANIFEST.json'))['checks']))")}
mkdir -p .work/sweep
for s in $SEEDS; do for id in $IDS; do
  t0=$(date +%s)
  VERIF_SEED=$s ./check $id --tier quick > .work/sweep/$id-$s.log 2>&1; rc=$?
  echo "seed=$s $id rc=$rc $(( $(date +%s) - t0 ))s $(grep -c '^VIOLATION' .work/sweep/$id-$s.log)v $(grep -o 'signature=[^ ]*' .work/sweep/$id-$s.log | sort -u | tr '\n' ' ')"
done; done
