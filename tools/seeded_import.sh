#!/bin/bash
# tools/seeded_import.sh Cxx  — import a sub-agent's A/B changes into /verif/seeded/, re-based on /repo HEAD; drop the worktree.
set -u
ID=$1
OUT=/tmp/wt/out/$ID
for m in A B; do
  [ -f "$OUT/$m.diff" ] || { echo "$ID$m: no diff"; continue; }
  D=/verif/seeded/$ID$m
  mkdir -p "$D"
  S=$(mktemp -d /tmp/liesel-imp-XXXXXX)
  git -C /repo worktree add -q --detach "$S/wt" HEAD
  if (cd "$S/wt" && patch -p1 -s --no-backup-if-mismatch < "$OUT/$m.diff"); then
    git -C "$S/wt" diff > "$D/patch.diff"
    echo "$ID$m: rebased on $(git -C /repo rev-parse --short HEAD) ($(grep -c '^[+-][^+-]' "$D/patch.diff") changed lines)"
  else
    echo "$ID$m: PATCH DOES NOT APPLY on HEAD — kept original as patch.orig.diff"
    cp "$OUT/$m.diff" "$D/patch.orig.diff"
  fi
  git -C /repo worktree remove --force "$S/wt"; rm -rf "$S"
  cp "$OUT/${m}_demo.py" "$D/demo.py" 2>/dev/null
  cp "$OUT/${m}_meta.json" "$D/agent_meta.json" 2>/dev/null
done
[ -d /tmp/wt/$ID ] && git -C /repo worktree remove --force /tmp/wt/$ID
git -C /repo worktree prune
