#!/bin/bash
# tools/seeded_import5.sh Cxx — import round-6 changes (A -> CxxK), rebased on /repo HEAD; drop the worktree
set -u
ID=$1; OUT=/tmp/wt6/out/$ID
for pair in A:K; do
  m=${pair%%:*}; t=${pair##*:}
  [ -f "$OUT/$m.diff" ] || { echo "$ID$m: no diff"; continue; }
  D=/verif/seeded/$ID$t; mkdir -p "$D"
  S=$(mktemp -d /tmp/liesel-imp-XXXXXX)
  git -C /repo worktree add -q --detach "$S/wt" HEAD
  if (cd "$S/wt" && patch -p1 -s --no-backup-if-mismatch < "$OUT/$m.diff"); then git -C "$S/wt" diff > "$D/patch.diff"; echo "$ID$t: ok"; else echo "$ID$t: PATCH DOES NOT APPLY"; cp "$OUT/$m.diff" "$D/patch.orig.diff"; fi
  git -C /repo worktree remove --force "$S/wt"; rm -rf "$S"
  cp "$OUT/${m}_demo.py" "$D/demo.py" 2>/dev/null; cp "$OUT/${m}_meta.json" "$D/agent_meta.json" 2>/dev/null
done
[ -d /tmp/wt6/$ID ] && git -C /repo worktree remove --force /tmp/wt6/$ID
git -C /repo worktree prune
