#!/bin/bash
# tools/make_regressions.sh — re-introduce each repaired defect (reverse of its fix: commit) in a scratch copy, let the property's check find and
# shrink it, and keep the shrunk replay files as corpus/regressions/<id>/<commit>-*.json (replayed by every later run)
cd "$(dirname "$0")/.."
for p in mutants/C*-revert-*.patch; do
  b=$(basename $p .patch); id=${b%%-*}; h=${b##*-}
  VERIF_MAX_ROUNDS=2 tools/mut.sh $p $id > .work/regr-$b.log 2>&1
  mkdir -p corpus/regressions/$id
  n=0
  for f in replays/$id/*.json; do [ -f "$f" ] || continue; cp "$f" corpus/regressions/$id/$h-$(basename $f); n=$((n+1)); done
  echo "$b: $(grep -o 'mut.sh: exit=[0-9]*' .work/regr-$b.log) $n replay files"
done
