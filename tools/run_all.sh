#!/bin/bash
# tools/run_all.sh [tier] [ids...] — run every registered check on /repo itself (regenerates evidence/), print a summary table
cd "$(dirname "$0")/.."
TIER=${1:-quick}; shift
IDS=${@:-$(python3 -c "import json;print(' '.join(c['property_id'] for c in json.load(open('MANIFEST.json'))['checks']))")}
mkdir -p .work/runall
for id in $IDS; do
  s=$(date +%s)
  ./check $id --tier $TIER > .work/runall/$id.log 2>&1
  rc=$?
  e=$(( $(date +%s) - s ))
  echo "$id rc=$rc ${e}s $(grep -c '^VIOLATION' .work/runall/$id.log) violations $(grep -c '^KNOWN-FINDING' .work/runall/$id.log) known; $(grep -o 'evaluations=[0-9]* distinct_nontrivial=[0-9]*' .work/runall/$id.log | head -1)"
done
