#!/bin/bash
# tools/confirm_seeded.sh <dir under seeded/> — confirm one seeded change in a scratch worktree of /repo HEAD:
# demo fails with the change, the pinned suite stays green with it, demo passes without it. Writes seeded/<id>/confirm.json
set -u
ID=$1
D=/verif/seeded/$ID
W=$(mktemp -d /tmp/liesel-confirm-XXXXXX)
git -C /repo worktree add -q --detach "$W/wt" HEAD || exit 2
cd "$W/wt"
export PYTHONPATH="$W/wt" JAX_PLATFORMS=cpu PYTHONWARNINGS=ignore
run_demo() { timeout 900 /venv/bin/python "$D/demo.py" > "$W/demo.log" 2>&1; echo $?; }
pristine_rc=$(run_demo); pristine_msg=$(tail -1 "$W/demo.log" | cut -c1-200)
if git apply "$D/patch.diff" 2>/dev/null; then applied=true; else applied=false; fi
mut_rc=$(run_demo); mut_msg=$(tail -1 "$W/demo.log" | cut -c1-300)
timeout 3000 /venv/bin/python -m pytest -q -p no:cacheprovider --timeout=900 tests > "$W/tests.log" 2>&1
tests_line=$(grep -E "passed|failed|error" "$W/tests.log" | tail -1)
git checkout -q -- . ; after_rc=$(run_demo)
python3 - "$ID" "$applied" "$pristine_rc" "$mut_rc" "$after_rc" "$tests_line" "$mut_msg" "$(git -C /repo rev-parse --short HEAD)" <<'PY'
import json, sys
i, applied, p, m, a, tests, msg, head = sys.argv[1:9]
ok = applied == "true" and p == "0" and m != "0" and a == "0" and "373 passed" in tests and not __import__("re").search(r"\b\d+ failed", tests) and " error" not in tests
json.dump({"id": i, "repo_head": head, "patch_applies": applied == "true", "demo_exit_without_change": int(p), "demo_exit_with_change": int(m),
           "demo_exit_after_revert": int(a), "demo_message_with_change": msg, "test_suite_with_change": tests, "confirmed": ok,
           "ran": "scratch worktree of /repo HEAD: demo.py; git apply patch.diff; demo.py; pytest -q tests (full pinned suite); git checkout; demo.py"},
          open(f"/verif/seeded/{i}/confirm.json", "w"), indent=1)
print(i, "CONFIRMED" if ok else "NOT-CONFIRMED", p, m, a, tests)
PY
cd /; git -C /repo worktree remove --force "$W/wt"; rm -rf "$W"
