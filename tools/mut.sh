#!/bin/bash
# tools/mut.sh <patch-file|-e 'sed-expr' file> <Cxx> [check args...]
# Runs a check against a scratch copy of /repo with one change applied; removes the copy afterwards.
set -u
VERIF="$(cd "$(dirname "$0")/.." && pwd)"
S=$(mktemp -d /tmp/liesel-mut-XXXXXX)
trap 'rm -rf "$S"' EXIT
rsync -a --exclude .git --exclude '__pycache__' /repo/ "$S/"
if [ "$1" = "-e" ]; then
  sed -i "$2" "$S/$3" || exit 3
  if diff -q "$S/$3" "/repo/$3" >/dev/null; then echo "mut.sh: sed changed nothing" >&2; exit 3; fi
  shift 3
else
  P=$(readlink -f "$1")
  (cd "$S" && patch -p1 -s --no-backup-if-mismatch < "$P") || { echo "mut.sh: patch failed" >&2; exit 3; }
  shift 1
fi
VERIF_REPO="$S" "$VERIF/check" "$@"
rc=$?
echo "mut.sh: exit=$rc"
exit $rc
