#!/bin/bash
# tools/confirm_all.sh <pattern> [jobs] — confirm every seeded/<pattern> change that has no confirm.json yet (or whose patch changed), N jobs in parallel
cd "$(dirname "$0")/.."
PAT=${1:-"C??[E-H]"}; J=${2:-6}
ls -d seeded/$PAT | xargs -n1 basename | while read id; do
  f=seeded/$id/confirm.json
  if [ -f "$f" ] && [ "$f" -nt "seeded/$id/patch.diff" ]; then continue; fi
  echo $id
done | xargs -P $J -I{} tools/confirm_seeded.sh {} 2>&1 | grep -E "CONFIRMED"
