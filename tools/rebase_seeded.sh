#!/bin/bash
# tools/rebase_seeded.sh — re-base every seeded/<id>/patch.diff and mutants/*.patch that no longer applies to /repo HEAD (3-way merge in a scratch worktree)
cd "$(dirname "$0")/.."
S=$(mktemp -d /tmp/liesel-rebase-XXXXXX)
git -C /repo worktree add -q --detach "$S/wt" HEAD || exit 2
for p in seeded/*/patch.diff mutants/*.patch; do
  case "$p" in *revert*) continue;; esac
  if git -C "$S/wt" apply --check "$PWD/$p" 2>/dev/null; then continue; fi
  if git -C "$S/wt" apply --3way "$PWD/$p" >/dev/null 2>&1 && ! git -C "$S/wt" diff --name-only --diff-filter=U | grep -q .; then
    git -C "$S/wt" diff HEAD > "$p.new"; mv "$p.new" "$p"; echo "rebased $p"
  else
    echo "CONFLICT $p"
  fi
  git -C "$S/wt" reset -q --hard HEAD
done
git -C /repo worktree remove --force "$S/wt"; rm -rf "$S"
