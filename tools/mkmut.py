#!/usr/bin/env python3
"""tools/mkmut.py <name> <file-relative-to-repo> <<< "OLD\n=====\nNEW"   -> mutants/<name>.patch (unified diff against /repo HEAD tree)"""
import difflib
import os
import sys

name, rel = sys.argv[1], sys.argv[2]
old, new = sys.stdin.read().split("\n=====\n")
old, new = old.strip("\n"), new.strip("\n")
src = open(os.path.join("/repo", rel)).read()
if src.count(old) != 1:
    sys.exit(f"mkmut: OLD occurs {src.count(old)} times in {rel}")
dst = src.replace(old, new)
diff = "".join(difflib.unified_diff(src.splitlines(True), dst.splitlines(True), f"a/{rel}", f"b/{rel}"))
out = os.path.join(os.path.dirname(os.path.dirname(os.path.abspath(__file__))), "mutants", name + ".patch")
open(out, "w").write(diff)
print("wrote", out)
