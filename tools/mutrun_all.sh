#!/bin/bash
# full kill matrix: every hand-written mutant and every seeded change against its own property's quick check
cd "$(dirname "$0")/.."
for c in C01 C02 C03 C04 C05 C06 C07 C08 C09 C10 C11 C12 C13 C14 C15 C16 C17 C18 C19 C20; do MUT_SHRINK=0 tools/mutrun.sh $c; done
