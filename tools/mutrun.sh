#!/bin/bash
# tools/mutrun.sh <Cxx> [pattern]  — run the quick check of Cxx against every mutants/<pattern>*.patch; print a kill table
cd "$(dirname "$0")/.."
ID=$1; PAT=${2:-$ID}
mkdir -p .work/mutrun
for p in mutants/$PAT*.patch seeded/$PAT*/patch.diff; do
  [ -f "$p" ] || continue
  n=$(echo "$p" | sed 's#mutants/##; s#seeded/##; s#/patch.diff##; s#.patch##')
  out=.work/mutrun/$ID-$n.log
  VERIF_MAX_ROUNDS=1 VERIF_SHRINK=${MUT_SHRINK:-0} tools/mut.sh "$p" "$ID" > "$out" 2>&1
  rc=$(grep -o 'mut.sh: exit=[0-9]*' "$out" | tail -1)
  sigs=$(grep -o 'signature=[^ ]*' "$out" | sort -u | tr '\n' ' ')
  echo "$ID vs $n: $rc $sigs"
  mkdir -p sensitivity
  grep -v "^$ID vs $n:" sensitivity/$ID.txt 2>/dev/null > sensitivity/$ID.txt.tmp; echo "$ID vs $n: $rc $sigs" >> sensitivity/$ID.txt.tmp; sort sensitivity/$ID.txt.tmp > sensitivity/$ID.txt; rm -f sensitivity/$ID.txt.tmp
done
