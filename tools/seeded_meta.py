#!/usr/bin/env python3
"""Writes seeded/<id>/meta.json from the agent's meta, the confirmation record and the kill results in sensitivity/*.txt."""
import glob
import json
import os
import re

ROOT = os.path.dirname(os.path.dirname(os.path.abspath(__file__)))
kills = {}
for f in glob.glob(os.path.join(ROOT, "sensitivity", "*.txt")):
    for line in open(f):
        m = re.match(r"(C\d+) vs (\S+): mut.sh: exit=(\d+)\s*(.*)", line)
        if m:
            kills.setdefault(m.group(2), {})[m.group(1)] = {"exit": int(m.group(3)), "signatures": sorted(set(re.findall(r"signature=(\S+)", m.group(4))))}
for d in sorted(glob.glob(os.path.join(ROOT, "seeded", "C*"))):
    sid = os.path.basename(d)
    am = {}
    try:
        am = json.load(open(os.path.join(d, "agent_meta.json")))
    except Exception:
        pass
    cf = {}
    try:
        cf = json.load(open(os.path.join(d, "confirm.json")))
    except Exception:
        pass
    meta = {
        "id": sid, "property": sid[:3], "summary": am.get("summary", ""), "needs_to_manifest": am.get("needs_to_manifest", ""),
        "files": am.get("files", []), "origin": "independent sub-agent given only the property text and a scratch worktree",
        "what_i_ran": cf.get("ran", ""), "confirmed": cf.get("confirmed"), "confirmation": {k: cf.get(k) for k in
                      ("repo_head", "patch_applies", "demo_exit_without_change", "demo_exit_with_change", "demo_exit_after_revert", "test_suite_with_change", "demo_message_with_change")},
        "caught_by": {c: r for c, r in kills.get(sid, {}).items() if r["exit"] == 1},
        "missed_by": [c for c, r in kills.get(sid, {}).items() if r["exit"] != 1],
    }
    json.dump(meta, open(os.path.join(d, "meta.json"), "w"), indent=1)
print("meta written for", len(glob.glob(os.path.join(ROOT, "seeded", "C*"))))
