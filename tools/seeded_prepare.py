#!/usr/bin/env python3
"""tools/seeded_prepare.py <round-dir> [ids...] — prepare a round of seeded-change sub-agents: one scratch worktree of /repo HEAD per
property under <round-dir>/<id> and <round-dir>/out/<id>/PROPERTY.txt holding ONLY the property text plus one-line summaries of the
changes earlier rounds produced for it (so that new changes differ).  Nothing from /verif's checks is given to the sub-agents."""
import glob
import json
import os
import subprocess
import sys

rd = sys.argv[1]
props = {json.loads(l)["id"]: json.loads(l) for l in open("/verif/properties.jsonl")}
ids = sys.argv[2:] or sorted(props)
os.makedirs(f"{rd}/out", exist_ok=True)
for pid in ids:
    p = props[pid]
    os.makedirs(f"{rd}/out/{pid}", exist_ok=True)
    prev = []
    for d in sorted(glob.glob(f"/verif/seeded/{pid}?")):
        try:
            prev.append(json.load(open(f"{d}/agent_meta.json"))["summary"][:330])
        except Exception:  # noqa: BLE001
            pass
    txt = (f"{pid}: {p['title']}\n\nStatement: {p['statement']}\n\nQuantified over: {p['quantifier']['text']}\n\n"
           f"Relevant files: {', '.join(p['anchors']['files'])}\n\n")
    if prev:
        txt += (f"Earlier rounds already produced these {len(prev)} changes for this property - yours must be DIFFERENT bugs (different mechanism; if possible a "
                "different code site and a clause of the statement, or a part of the quantifier, that none of them touches):\n" + "".join(f"  - {x}\n" for x in prev))
    open(f"{rd}/out/{pid}/PROPERTY.txt", "w").write(txt)
    if not os.path.isdir(f"{rd}/{pid}"):
        subprocess.run(["git", "-C", "/repo", "worktree", "add", "-q", "--detach", f"{rd}/{pid}", "HEAD"], check=True)
print("prepared", rd, ids)
