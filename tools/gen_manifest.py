#!/usr/bin/env python3
"""Regenerates MANIFEST.json from the table below + the check modules that exist."""
import glob
import json
import os
import re

ROOT = os.path.dirname(os.path.dirname(os.path.abspath(__file__)))
BASELINE_OFF = ("cd /repo && /venv/bin/python -m pytest -ra -q -p no:cacheprovider --timeout=900 "
                "--continue-on-collection-errors --junitxml=/tmp/liesel-baseline.junit.xml")

# property -> (technique, level text, level note, design_ref)
TABLE = {
    "C05": ("exhaustive boundary-alphabet enumeration + Hypothesis float32 generation against a float32 reference rule; "
            "harness-owned uniform draw and real PRNG keys incl. zero-draw keys; binomial frequency test",
            "Generated-input search with an explicit float32 oracle of the acceptance rule: every combination of the boundary "
            "alphabets (finite, +-inf, NaN, under/overflow edges) x six placements of u relative to a is enumerated, random float32 "
            "triples and a Liesel graph model are added, real PRNG keys whose uniform draw is exactly 0.0 are searched for and replayed, "
            "and the acceptance frequency over thousands of keys is compared with the reported probability. Exploration, not proof: "
            "exhaustive only over the stated alphabets.",
            "Trusts numpy float32 arithmetic as the reference; the harness-owned-u assertions apply only when mh_step draws via "
            "jax.random.uniform (detected), otherwise distribution-free and frequency laws only.",
            "DESIGN.md 3/C05"),
}

TODO_REASON = "check not built yet in this round (planned, see DESIGN.md section 3); not claimed until its check exists"


def main():
    props = [json.loads(l) for l in open(os.path.join(ROOT, "properties.jsonl"))]
    have = {re.match(r"c(\d+)_", os.path.basename(p)).group(0)[:-1].upper(): p for p in glob.glob(os.path.join(ROOT, "checks", "c[0-9]*_*.py"))}
    checks, na = [], []
    for p in props:
        pid = p["id"]
        if pid in have and pid in TABLE:
            tech, text, note, ref = TABLE[pid]
            checks.append({
                "property_id": pid,
                "quick_cmd": f"./check {pid} --tier quick",
                "thorough_cmd": f"./check {pid} --tier thorough",
                "evidence_file": f"/verif/evidence/{pid}.json",
                "replay_cmd_template": f"./check {pid} --replay {{path}}",
                "engine": "pbt-runner",
                "level_claimed": {"category": "exploration", "text": text, "design_ref": ref},
                "level_note": note,
                "technique": tech,
            })
        else:
            na.append({"property_id": pid, "reason": TODO_REASON})
    man = {
        "version": 1,
        "setup_cmd": "./setup.sh",
        "hooks": {
            "guard": "LIESEL_VERIF_HOOKS",
            "enable": "no hooks: the checks observe liesel through its public API with test-side probe kernels / probe model "
                      "interfaces; the guard name is reserved and unused (no source commit carries it)",
            "baseline_off_cmd": BASELINE_OFF,
            "source_commits": [],
            "add_only": True,
        },
        "engines": [{
            "name": "pbt-runner", "path": "vlib/runner.py", "serves_properties": [c["property_id"] for c in checks],
            "kind_free_text": "Hypothesis 6.168 generators (structured cases, op-list histories) + exhaustive enumeration of small "
                              "domains + statistical oracles with confirmation; sharded over processes; replay files bypass Hypothesis",
        }],
        "checks": checks,
        "not_applicable": na,
        "notes": "All checks: ./check <id> [--tier quick|thorough] [--replay file]; honour VERIF_SEED / VERIF_TIER / VERIF_REPO; "
                 "exit 0 held, 1 VIOLATION, 2 harness error. Genuine defects: known_findings.json (fixed: entries record repaired ones).",
    }
    with open(os.path.join(ROOT, "MANIFEST.json"), "w") as f:
        json.dump(man, f, indent=1)
    try:
        import jsonschema

        jsonschema.validate(man, json.load(open("/root/.vp/MANIFEST.schema.json")))
        print(f"MANIFEST ok: {len(checks)} checks, {len(na)} not_applicable")
    except ImportError:
        print("written (jsonschema missing, not validated)")


if __name__ == "__main__":
    main()
