#!/usr/bin/env python3
"""Regenerates MANIFEST.json from the table below + the check modules that exist."""
import glob
import json
import os
import re

ROOT = os.path.dirname(os.path.dirname(os.path.abspath(__file__)))
BASELINE_OFF = ("cd /repo && /venv/bin/python -m pytest -ra -q -p no:cacheprovider --timeout=900 "
                "--continue-on-collection-errors --junitxml=/tmp/liesel-baseline.junit.xml")

import ast


def module_meta(path):
    """TECHNIQUE / LEVEL_TEXT / LEVEL_NOTE string constants of a check module, read without importing it."""
    out = {}
    for node in ast.parse(open(path).read()).body:
        if isinstance(node, ast.Assign) and len(node.targets) == 1 and isinstance(node.targets[0], ast.Name):
            try:
                out[node.targets[0].id] = ast.literal_eval(node.value)
            except Exception:
                pass
    return out


TODO_REASON = "check not built yet in this round (planned, see DESIGN.md section 3); not claimed until its check exists"


def main():
    props = [json.loads(l) for l in open(os.path.join(ROOT, "properties.jsonl"))]
    have = {re.match(r"c(\d+)_", os.path.basename(p)).group(0)[:-1].upper(): p for p in glob.glob(os.path.join(ROOT, "checks", "c[0-9]*_*.py"))}
    checks, na = [], []
    for p in props:
        pid = p["id"]
        meta = module_meta(have[pid]) if pid in have else {}
        if pid in have and "TECHNIQUE" in meta:
            tech, text, note, ref = meta["TECHNIQUE"], meta["LEVEL_TEXT"], meta["LEVEL_NOTE"], f"DESIGN.md section 3 / {pid}"
            checks.append({
                "property_id": pid,
                "quick_cmd": f"./check {pid} --tier quick",
                "thorough_cmd": f"./check {pid} --tier thorough",
                "evidence_file": f"/verif/evidence/{pid}.json",
                "replay_cmd_template": f"./check {pid} --replay {{path}}",
                "engine": "pbt-runner",
                "level_claimed": {"category": "exploration", "text": text, "design_ref": ref},
                "level_note": note,
                "technique": tech,
            })
        else:
            na.append({"property_id": pid, "reason": TODO_REASON})
    man = {
        "version": 1,
        "setup_cmd": "./setup.sh",
        "hooks": {
            "guard": "LIESEL_VERIF_HOOKS",
            "enable": "no hooks: the checks observe liesel through its public API with test-side probe kernels / probe model "
                      "interfaces; the guard name is reserved and unused (no source commit carries it)",
            "baseline_off_cmd": BASELINE_OFF,
            "source_commits": [],
            "add_only": True,
        },
        "engines": [{
            "name": "pbt-runner", "path": "vlib/runner.py", "serves_properties": [c["property_id"] for c in checks],
            "kind_free_text": "Hypothesis 6.168 generators (structured cases, op-list histories) + exhaustive enumeration of small "
                              "domains + statistical oracles with confirmation; sharded over processes; replay files bypass Hypothesis",
        }],
        "checks": checks,
        "not_applicable": na,
        "notes": "All checks: ./check <id> [--tier quick|thorough] [--replay file]; honour VERIF_SEED / VERIF_TIER / VERIF_REPO; "
                 "exit 0 held, 1 VIOLATION, 2 harness error. Genuine defects: known_findings.json (fixed: entries record repaired ones).",
    }
    with open(os.path.join(ROOT, "MANIFEST.json"), "w") as f:
        json.dump(man, f, indent=1)
    try:
        import jsonschema

        jsonschema.validate(man, json.load(open("/root/.vp/MANIFEST.schema.json")))
        print(f"MANIFEST ok: {len(checks)} checks, {len(na)} not_applicable")
    except ImportError:
        print("written (jsonschema missing, not validated)")


if __name__ == "__main__":
    main()
